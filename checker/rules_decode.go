package main

import (
	"fmt"
	"go/constant"
	"go/token"
	"go/types"
	"os"
	"sort"
	"strings"

	"golang.org/x/tools/go/ssa"
)

// R13 — weight decoding tables and gates (C12, C18).

// ONNX data_type -> Go element type, typed field holding it, byte width.
type onnxType struct {
	name  string
	goT   types.BasicKind
	field string // typed repeated field specified by ONNX for this data_type
	width int64
}

var onnxTypes = []onnxType{
	{"FLOAT", types.Float32, "FloatData", 4},
	{"UINT8", types.Uint8, "Int32Data", 1},
	{"INT8", types.Int8, "Int32Data", 1},
	{"UINT16", types.Uint16, "Int32Data", 2},
	{"INT16", types.Int16, "Int32Data", 2},
	{"INT32", types.Int32, "Int32Data", 4},
	{"INT64", types.Int64, "Int64Data", 8},
	{"BOOL", types.Bool, "Int32Data", 1},
	{"DOUBLE", types.Float64, "DoubleData", 8},
	{"UINT32", types.Uint32, "Uint64Data", 4},
	{"UINT64", types.Uint64, "Uint64Data", 8},
}

func basicKindOfSliceElem(t types.Type) (types.BasicKind, bool) {
	s, ok := t.Underlying().(*types.Slice)
	if !ok {
		return 0, false
	}
	b, ok := s.Elem().Underlying().(*types.Basic)
	if !ok {
		return 0, false
	}
	k := b.Kind()
	if k == types.Byte {
		k = types.Uint8
	}
	return k, true
}

// decoder locates the tensor-from-proto function by role.
func (c *Ctx) findTensorFromProto() *ssa.Function {
	for _, f := range c.libFns {
		if fnPkgPath(f) != pkgOnnx || f.Parent() != nil || f.Signature.Recv() != nil || strings.HasSuffix(c.fileOf(f.Pos()), ".pb.go") {
			continue
		}
		s := f.Signature
		if s.Params().Len() != 1 || s.Results().Len() != 2 || !isTensorish(s.Results().At(0).Type()) || !isErrorType(s.Results().At(1).Type()) {
			continue
		}
		if pt, ok := s.Params().At(0).Type().(*types.Pointer); ok {
			if n, ok := pt.Elem().(*types.Named); ok && n.Obj().Name() == "TensorProto" {
				return f
			}
		}
	}
	return nil
}

// dataTypeCase: which ONNX data_type name a condition value tests the DataType field against.
func (c *Ctx) dataTypeCase(cond ssa.Value, tp ssa.Value) (string, bool) {
	bo, ok := cond.(*ssa.BinOp)
	if !ok || bo.Op != token.EQL {
		return "", false
	}
	isDT := func(v ssa.Value) bool {
		if cv, ok := v.(*ssa.Convert); ok {
			v = cv.X
		}
		if ct, ok := v.(*ssa.ChangeType); ok {
			v = ct.X
		}
		switch x := v.(type) {
		case *ssa.UnOp:
			if fa, ok := x.X.(*ssa.FieldAddr); ok && fa.X == tp {
				st := fa.X.Type().(*types.Pointer).Elem().Underlying().(*types.Struct)
				return st.Field(fa.Field).Name() == "DataType"
			}
		case *ssa.Call:
			if f := x.Common().StaticCallee(); f != nil && f.Name() == "GetDataType" && len(x.Common().Args) == 1 && x.Common().Args[0] == tp {
				return true
			}
		}
		return false
	}
	nameOf := func(v ssa.Value) (string, bool) {
		if cv, ok := v.(*ssa.Convert); ok {
			v = cv.X
		}
		switch x := v.(type) {
		case *ssa.Lookup:
			ld, ok := x.X.(*ssa.UnOp)
			if !ok {
				return "", false
			}
			g, ok := ld.X.(*ssa.Global)
			if !ok || g.Name() != "TensorProto_DataType_value" {
				return "", false
			}
			k, ok := x.Index.(*ssa.Const)
			if !ok || k.Value == nil || k.Value.Kind() != constant.String {
				return "", false
			}
			return constant.StringVal(k.Value), true
		case *ssa.Const:
			n, ok := constInt(x)
			if !ok {
				return "", false
			}
			return c.enumName(n)
		}
		return "", false
	}
	if isDT(bo.X) {
		return nameOf(bo.Y)
	}
	if isDT(bo.Y) {
		return nameOf(bo.X)
	}
	return "", false
}

// enumName maps a TensorProto_DataType value to its ONNX name through the generated constants.
func (c *Ctx) enumName(n int64) (string, bool) {
	p := c.pkgByPath[pkgOnnx]
	sc := p.Types.Scope()
	for _, nm := range sc.Names() {
		k, ok := sc.Lookup(nm).(*types.Const)
		if !ok {
			continue
		}
		if nn, ok := k.Type().(*types.Named); !ok || nn.Obj().Name() != "TensorProto_DataType" {
			continue
		}
		if v, ok := constant.Int64Val(k.Val()); ok && v == n {
			return strings.TrimPrefix(nm, "TensorProto_"), true
		}
	}
	return "", false
}

type decodeInfo struct {
	fn        *ssa.Function
	tp        ssa.Value
	newCall   *ssa.Call                  // tensor.New(...) on the load path
	valuesPhi ssa.Value                  // the decoded values handed to WithBacking
	caseOf    map[*ssa.BasicBlock]string // case body block -> ONNX type
	getter    map[string]*ssa.Function
}

func (c *Ctx) decodeInfo() *decodeInfo {
	f := c.findTensorFromProto()
	if f == nil {
		return nil
	}
	di := &decodeInfo{fn: f, tp: f.Params[0], caseOf: map[*ssa.BasicBlock]string{}, getter: map[string]*ssa.Function{}}
	for _, b := range f.Blocks {
		if len(b.Instrs) == 0 {
			continue
		}
		iff, ok := b.Instrs[len(b.Instrs)-1].(*ssa.If)
		if !ok {
			continue
		}
		name, ok := c.dataTypeCase(iff.Cond, di.tp)
		if !ok {
			continue
		}
		body := b.Succs[0]
		di.caseOf[body] = name
		for _, in := range body.Instrs {
			if call, ok := in.(*ssa.Call); ok {
				if g := call.Common().StaticCallee(); g != nil && isLibFn(g) && len(call.Common().Args) == 1 && call.Common().Args[0] == di.tp {
					di.getter[name] = g
				}
			}
		}
	}
	for _, b := range f.Blocks {
		for _, in := range b.Instrs {
			if call, ok := in.(*ssa.Call); ok {
				if o := calleeObj(call); o != nil && qualName(o) == pkgTensor+".New" {
					di.newCall = call
				}
			}
		}
	}
	if di.newCall != nil {
		for _, e := range varargElems(di.newCall.Common().Args[0]) {
			if oc, ok := e.(*ssa.Call); ok {
				if o := calleeObj(oc); o != nil && qualName(o) == pkgTensor+".WithBacking" {
					di.valuesPhi = oc.Common().Args[0]
				}
			}
		}
	}
	return di
}

func ruleR13(c *Ctx, prop string) {
	di := c.decodeInfo()
	if di == nil {
		c.violate("R13", "R13:anchor", "", "no function *TensorProto -> (tensor, error) in package onnx")
		return
	}
	n0R13 := len(c.obls)
	full := prop == "C12"
	tables := full || prop == "C11" // C11: Constant's `value` tensor is decoded by the same tables (D1-D3 only)
	byName := map[string]onnxType{}
	for _, t := range onnxTypes {
		byName[t.name] = t
	}
	if tables {
		// D1 dispatch table
		for _, t := range onnxTypes {
			key := "R13:D1:" + t.name
			g := di.getter[t.name]
			if g == nil {
				c.violate("R13", key, c.pos(di.fn.Pos()), "data_type "+t.name+" has no decoder case: the library can represent this type but refuses or misroutes it")
				continue
			}
			k, ok := basicKindOfSliceElem(g.Signature.Results().At(0).Type())
			c.decide(ok && k == t.goT, "R13", key, c.pos(g.Pos()), fmt.Sprintf("case %s -> %s returning []%s", t.name, fname(g), types.Typ[t.goT].Name()),
				fmt.Sprintf("data_type %s is decoded by %s whose element type is not %s: values are loaded with a different element type", t.name, fname(g), types.Typ[t.goT].Name()))
		}
		for _, n := range sortedKeys(di.getter) {
			if _, ok := byName[n]; !ok {
				c.note("R13", "R13:D1:extra:"+n, c.pos(di.getter[n].Pos()), "additional data_type case "+n+" (not among the 11 types of the property)")
			}
		}
		// D2 typed field / raw reader selection, D3 raw readers
		readers := map[*ssa.Function]onnxType{}
		for _, t := range onnxTypes {
			g := di.getter[t.name]
			if g == nil {
				continue
			}
			c.checkD2(g, t, readers)
		}
		// raw readers also by role ([]byte -> []T (, error) in package onnx), for dispatches the getter table above
		// does not recognise
		for _, g := range c.libFns {
			if fnPkgPath(g) != pkgOnnx || g.Parent() != nil || g.Signature.Recv() != nil || len(g.Params) != 1 || g.Origin() != nil || g.TypeParams().Len() > 0 {
				continue
			}
			if k, ok := basicKindOfSliceElem(g.Params[0].Type()); !ok || k != types.Uint8 {
				continue
			}
			nr := g.Signature.Results().Len()
			if nr < 1 || nr > 2 || (nr == 2 && !isErrorType(g.Signature.Results().At(1).Type())) {
				continue
			}
			ek, ok := basicKindOfSliceElem(g.Signature.Results().At(0).Type())
			if !ok {
				continue
			}
			if _, have := readers[g]; have {
				continue
			}
			for _, t := range onnxTypes {
				if t.goT == ek {
					readers[g] = t
					break
				}
			}
		}
		var rs []*ssa.Function
		for r := range readers {
			rs = append(rs, r)
		}
		sort.Slice(rs, func(i, j int) bool { return fname(rs[i]) < fname(rs[j]) })
		for _, r := range rs {
			c.checkD3(r, readers[r])
		}
		c.counts["R13.raw_readers"] = len(rs)
		if len(rs) < 10 {
			c.undecided("R13", "R13:floor", "", fmt.Sprintf("only %d raw readers found (floor 10)", len(rs)))
		}
		// D4 is judged together with D6 below
		if full {
			c.checkD4(rs, di)
		}
	}
	nTablesEnd := len(c.obls)
	_ = nTablesEnd
	if prop == "C11" {
		c.applyDecodeTable(n0R13)
		return
	}
	// D5: only the supported cases reach tensor construction (a C12 clause; not a crash)
	if full {
		c.checkD5(di, byName)
	}
	c.applyDecodeTable(n0R13)
	// D6: count/dims gate
	ok, why := c.checkD6(di)
	c.decide(ok, "R13", "R13:D6", c.pos(di.newCall.Pos()), "every path to tensor construction passes rejecting checks: each dim >= 1 and element count == product of dims", why)
	// D6b: the gate stands before EVERY success return, not only before the construction found above: a
	// second way out (a special path for scalars, for empty tensors, ...) that skips it loads a payload of
	// the wrong length as different values
	if ok && di.valuesPhi != nil {
		seeds := map[ssa.Value]string{di.valuesPhi: "values"}
		n := 0
		for _, r := range returnsOf(di.fn) {
			if len(r.Results) == 0 || isNilConst(r.Results[0]) {
				continue
			}
			n++
			countEq, _ := c.gateAt(di.fn, r.Block(), seeds, 0)
			key := fmt.Sprintf("R13:D6:return#%d", n)
			c.decide(countEq, "R13", key, c.pos(r.Pos()), "this success return is dominated by the rejecting element-count == product-of-dims check",
				"a tensor is returned here without the rejecting comparison of the number of decoded elements with the product of the declared dims having been passed: on this path a payload of the wrong length is loaded (as fewer / other values) instead of being refused")
		}
		if n == 0 {
			c.undecided("R13", "R13:D6:returns", c.pos(di.fn.Pos()), "no success return found in "+fname(di.fn))
		}
	}
}

// checkD2: getter = `if len(tp.<F>) > 0 { return conv(tp.Get<F>()) }; return raw(tp.RawData)`.
func (c *Ctx) checkD2(g *ssa.Function, t onnxType, readers map[*ssa.Function]onnxType) {
	key := "R13:D2:" + t.name
	site := c.pos(g.Pos())
	tp := g.Params[0]
	st := tp.Type().(*types.Pointer).Elem().Underlying().(*types.Struct)
	fieldName := func(fa *ssa.FieldAddr) string { return st.Field(fa.Field).Name() }
	var typedFields []string
	rawOK := false
	typedOK := false
	var why []string
	for _, r := range returnsOf(g) {
		v := r.Results[0]
		if ex, ok := v.(*ssa.Extract); ok {
			v = ex.Tuple
		}
		call, ok := v.(*ssa.Call)
		if !ok {
			why = append(why, "a return is not a decoder call")
			continue
		}
		f := call.Common().StaticCallee()
		if f == nil {
			why = append(why, "dynamic call")
			continue
		}
		arg := call.Common().Args[0]
		// raw branch: f(tp.RawData)
		if ld, ok := arg.(*ssa.UnOp); ok {
			if fa, ok := ld.X.(*ssa.FieldAddr); ok && fa.X == tp && fieldName(fa) == "RawData" {
				if k, ok := basicKindOfSliceElem(f.Signature.Results().At(0).Type()); ok && k == t.goT {
					rawOK = true
					readers[f] = t
				} else {
					why = append(why, "raw bytes decoded by "+fname(f)+" with a different element type")
				}
				continue
			}
		}
		if rc, ok := arg.(*ssa.Call); ok && rc.Common().StaticCallee() != nil && rc.Common().StaticCallee().Name() == "GetRawData" {
			if k, ok := basicKindOfSliceElem(f.Signature.Results().At(0).Type()); ok && k == t.goT {
				rawOK = true
				readers[f] = t
			}
			continue
		}
		// typed branch: GetF(tp) directly or conv(GetF(tp))
		get := call
		if f.Name() != "Get"+t.field {
			inner, ok := arg.(*ssa.Call)
			if !ok {
				why = append(why, "typed branch does not read a typed field")
				continue
			}
			get = inner
			// conversion function result type
			if k, ok := basicKindOfSliceElem(f.Signature.Results().At(0).Type()); !ok || k != t.goT {
				why = append(why, "typed field converted to a different element type by "+fname(f))
				continue
			}
			c.checkNarrowing(f, t)
		}
		gf := get.Common().StaticCallee()
		if gf == nil || !strings.HasPrefix(gf.Name(), "Get") {
			why = append(why, "typed branch does not read a typed field")
			continue
		}
		typedFields = append(typedFields, strings.TrimPrefix(gf.Name(), "Get"))
		// the branch is guarded by len(tp.<same field>) > 0
		guarded := false
		for _, gd := range guardsOf(r.Block()) {
			for _, a := range atomsOf(gd) {
				if a.op == token.GTR {
					if lc, ok := a.x.(*ssa.Call); ok {
						if b, ok := lc.Common().Value.(*ssa.Builtin); ok && b.Name() == "len" {
							if ld, ok := lc.Common().Args[0].(*ssa.UnOp); ok {
								if fa, ok := ld.X.(*ssa.FieldAddr); ok && fa.X == tp && fieldName(fa) == strings.TrimPrefix(gf.Name(), "Get") {
									guarded = true
								}
							}
						}
					}
				}
			}
		}
		if !guarded {
			why = append(why, "typed field used without testing that the same field is populated")
			continue
		}
		if strings.TrimPrefix(gf.Name(), "Get") == t.field {
			typedOK = true
		} else {
			why = append(why, fmt.Sprintf("data_type %s reads typed field %s but ONNX stores it in %s", t.name, strings.TrimPrefix(gf.Name(), "Get"), t.field))
		}
	}
	c.decide(rawOK && typedOK && len(why) == 0, "R13", key, site, fmt.Sprintf("%s: typed field %s when populated, else raw little-endian reader of the same element type", t.name, t.field), strings.Join(why, "; "))
}

// checkNarrowing: conv(arr) = make([]T, len(arr)); out[i] = T(arr[i]) (bool: != 0 style comparison).
func (c *Ctx) checkNarrowing(f *ssa.Function, t onnxType) {
	key := "R13:D2:narrow:" + fname(f)
	for _, o := range c.obls {
		if o.Key == key {
			return
		}
	}
	ok := false
	for _, b := range f.Blocks {
		for _, in := range b.Instrs {
			st, isSt := in.(*ssa.Store)
			if !isSt {
				continue
			}
			ia, isIA := st.Addr.(*ssa.IndexAddr)
			if !isIA {
				continue
			}
			mk, isMk := ia.X.(*ssa.MakeSlice)
			if !isMk || !isLenCallOf(mk.Len, f.Params[0]) {
				continue
			}
			// value derives from arr[same index]
			src := st.Val
			if cv, isCv := src.(*ssa.Convert); isCv {
				src = cv.X
			}
			if bo, isBo := src.(*ssa.BinOp); isBo {
				src = bo.X
			}
			if ld, isLd := src.(*ssa.UnOp); isLd {
				if ia2, isIA2 := ld.X.(*ssa.IndexAddr); isIA2 && ia2.X == f.Params[0] && ia2.Index == ia.Index && fullRangeLoop(ia.Index, f.Params[0]) {
					ok = true
				}
			}
		}
	}
	// the same fact over a finite table (0..3 token elements), whatever the loop looks like
	why := "narrowing helper does not convert element i to position i for every i"
	if known, pass, wit := c.elementwiseTable(f, 0, convsOrOneComparison); known {
		ok = pass
		if !pass {
			why += ": " + wit
		}
	}
	c.decide(ok, "R13", key, c.pos(f.Pos()), "out := make(len(in)); out[i] = T(in[i]) for every i", why)
}

// checkD3: raw reader: buffer length == compared length == decode width == sizeof(element type).
func (c *Ctx) checkD3(r *ssa.Function, t onnxType) {
	n0 := len(c.obls)
	c.checkD3Structural(r, t)
	key := "R13:D3:" + fname(r)
	needed := false
	for _, o := range c.obls[n0:] {
		if o.Key == key && (o.Status == StViolated || o.Status == StUndecided) {
			needed = true
		}
	}
	_ = needed // consulted always (see the Cast table)
	if t.goT == types.Bool || r.Signature.Results().Len() == 1 {
		return
	}
	// how the reader is factored does not matter to the table: payloads of 0..2w+1 bytes
	known, bad, _ := c.rawReaderTable(r, t)
	if !known {
		return
	}
	for i := n0; i < len(c.obls); i++ {
		o := &c.obls[i]
		if o.Key != key {
			continue
		}
		if bad == "" {
			if o.Status == StViolated || o.Status == StUndecided {
				o.Status, o.Why = StDischarged, fmt.Sprintf("by the finite table of payload lengths 0..%d (the structural reading does not recognise the factoring): one value per %d bytes, little-endian, in order, no panic", 2*t.width+1, t.width)
			}
		} else {
			o.Status, o.Why = StViolated, bad
		}
	}
}

func (c *Ctx) checkD3Structural(r *ssa.Function, t onnxType) {
	key := "R13:D3:" + fname(r)
	site := c.pos(r.Pos())
	if t.goT == types.Bool || r.Signature.Results().Len() == 1 {
		// byte-per-element form: make(len(data)); out[i] = f(data[i])
		ok := false
		for _, b := range r.Blocks {
			for _, in := range b.Instrs {
				if st, isSt := in.(*ssa.Store); isSt {
					if ia, isIA := st.Addr.(*ssa.IndexAddr); isIA {
						if mk, isMk := ia.X.(*ssa.MakeSlice); isMk && isLenCallOf(mk.Len, r.Params[0]) && fullRangeLoop(ia.Index, r.Params[0]) {
							ok = true
						}
					}
				}
			}
		}
		why := "byte-wise reader does not produce one element per byte"
		if known, pass, wit := c.elementwiseTable(r, 0, convsOrOneComparison); known {
			ok = pass
			if !pass {
				why += ": " + wit
			}
		}
		c.decide(ok, "R13", key, site, "one output element per input byte, same index", why)
		return
	}
	var bufLen, cmpLen, decW int64 = -1, -1, -1
	var readCall *ssa.Call
	for _, b := range r.Blocks {
		for _, in := range b.Instrs {
			call, ok := in.(*ssa.Call)
			if !ok {
				continue
			}
			o := calleeObj(call)
			if o == nil {
				continue
			}
			q := qualName(o)
			switch {
			case q == "bytes.(Reader).Read":
				readCall = call
				bufLen = sliceConstLen(call.Common().Args[1])
			case strings.HasPrefix(q, "encoding/binary.(littleEndian).Uint") || strings.HasPrefix(q, "encoding/binary.(bigEndian).Uint"):
				switch o.Name() {
				case "Uint16":
					decW = 2
				case "Uint32":
					decW = 4
				case "Uint64":
					decW = 8
				}
				if strings.Contains(q, "bigEndian") {
					decW = -2
				}
			}
		}
	}
	if readCall == nil {
		c.checkD3Indexed(r, t, decW)
		return
	}
	nV := resultOfCall(readCall, 0)
	if nV != nil {
		for _, ref := range *nV.Referrers() {
			if bo, ok := ref.(*ssa.BinOp); ok && (bo.Op == token.NEQ || bo.Op == token.EQL || bo.Op == token.LSS) {
				if k, ok := constInt(bo.Y); ok {
					cmpLen = k
				}
			}
		}
	}
	if decW == -1 {
		// single byte: element[0]
		for _, b := range r.Blocks {
			for _, in := range b.Instrs {
				if ia, ok := in.(*ssa.IndexAddr); ok {
					if k, ok := constInt(ia.Index); ok && k == 0 && sliceConstLen(ia.X) >= 1 {
						decW = 1
					}
				}
			}
		}
	}
	// appended element type
	k, _ := basicKindOfSliceElem(r.Signature.Results().At(0).Type())
	ok := bufLen == t.width && cmpLen == t.width && decW == t.width && k == t.goT
	c.decide(ok, "R13", key, site, fmt.Sprintf("buffer=%d compared=%d decoded=%d bytes = sizeof(%s)", bufLen, cmpLen, decW, types.Typ[t.goT].Name()),
		fmt.Sprintf("raw reader for %s: buffer %d bytes, length compared with %d, %d bytes decoded, element size %d: values are not reinterpreted bit-exactly (or never decoded at all)", t.name, bufLen, cmpLen, decW, t.width))
}

// checkD3Indexed: reader that decodes straight from data[e:] with e advancing by a constant stride
// (e = i*K or a loop variable stepped by K). Stride, decode width and element size must agree, and
// because nothing notices a tail shorter than one element, a rejecting len(data) % K check is required.
func (c *Ctx) checkD3Indexed(r *ssa.Function, t onnxType, decW int64) {
	key := "R13:D3:" + fname(r)
	site := c.pos(r.Pos())
	data := r.Params[0]
	stride := int64(-1)
	for _, b := range r.Blocks {
		for _, in := range b.Instrs {
			call, ok := in.(*ssa.Call)
			if !ok {
				continue
			}
			o := calleeObj(call)
			if o == nil || !strings.HasPrefix(qualName(o), "encoding/binary.(littleEndian).Uint") {
				continue
			}
			sl, ok := call.Common().Args[len(call.Common().Args)-1].(*ssa.Slice)
			if !ok || sl.X != data || sl.Low == nil {
				continue
			}
			switch e := sl.Low.(type) {
			case *ssa.BinOp:
				if e.Op == token.MUL {
					if k, ok := constInt(e.Y); ok {
						stride = k
					} else if k, ok := constInt(e.X); ok {
						stride = k
					}
				}
			case *ssa.Phi:
				for _, ed := range e.Edges {
					if inc, ok := ed.(*ssa.BinOp); ok && inc.Op == token.ADD && inc.X == ssa.Value(e) {
						if k, ok := constInt(inc.Y); ok {
							stride = k
						}
					}
				}
			}
		}
	}
	if stride < 0 {
		if decW == 1 || t.width == 1 {
			// single-byte element types decoded by indexing data[i]
			stride = 1
			decW = 1
		} else {
			c.undecided("R13", key, site, "raw reader uses neither bytes.Reader.Read nor a constant-stride decode of data[e:]: unrecognised factoring")
			return
		}
	}
	k, _ := basicKindOfSliceElem(r.Signature.Results().At(0).Type())
	ok := stride == t.width && decW == t.width && k == t.goT
	c.decide(ok, "R13", key, site, fmt.Sprintf("stride=%d decoded=%d bytes = sizeof(%s)", stride, decW, types.Typ[t.goT].Name()),
		fmt.Sprintf("raw reader for %s: stride %d bytes, %d bytes decoded, element size %d: values are not reinterpreted bit-exactly", t.name, stride, decW, t.width))
	// partial tail
	if t.width > 1 {
		rem := false
		for _, b := range r.Blocks {
			if len(b.Instrs) == 0 {
				continue
			}
			iff, ok := b.Instrs[len(b.Instrs)-1].(*ssa.If)
			if !ok {
				continue
			}
			bo, ok := iff.Cond.(*ssa.BinOp)
			if !ok || (bo.Op != token.NEQ && bo.Op != token.EQL) {
				continue
			}
			m, ok := bo.X.(*ssa.BinOp)
			if !ok || m.Op != token.REM || !isLenCallOf(m.X, data) {
				continue
			}
			if kk, ok := constInt(m.Y); !ok || kk != t.width {
				continue
			}
			if z, ok := constInt(bo.Y); ok && z == 0 && (c.edgeRejects(iff, bo.Op == token.NEQ) || edgeReturnsNoValues(iff, bo.Op == token.NEQ)) {
				rem = true // refused, or answered with no values at all (the count gate then refuses the tensor)
			}
		}
		c.decide(rem, "R13", "R13:D4tail:"+fname(r), site, "len(data) % element size != 0 returns an error",
			"the reader decodes len(data)/size whole elements and never looks at the remaining bytes: a payload with a trailing partial element is loaded (or read past its end) instead of refused — the count gate cannot see dropped bytes")
	}
}

// sliceConstLen: length of a slice built from a constant-size make (new [K]T + slice), or -1.
func sliceConstLen(v ssa.Value) int64 {
	switch x := v.(type) {
	case *ssa.Slice:
		if al, ok := x.X.(*ssa.Alloc); ok {
			if arr, ok := al.Type().(*types.Pointer).Elem().Underlying().(*types.Array); ok {
				if x.High != nil {
					if k, ok := constInt(x.High); ok {
						return k
					}
					return -1
				}
				return arr.Len()
			}
		}
	case *ssa.MakeSlice:
		if k, ok := constInt(x.Len); ok {
			return k
		}
	}
	return -1
}

// checkD4: a trailing partial element must not be decoded as "nothing" unless the count gate catches it.
func (c *Ctx) checkD4(readers []*ssa.Function, di *decodeInfo) {
	gateOK, _ := c.checkD6(di)
	for _, r := range readers {
		if r.Signature.Results().Len() != 2 {
			continue
		}
		key := "R13:D4:" + fname(r)
		bad := false
		for _, ret := range returnsOf(r) {
			if isNilConst(ret.Results[0]) && !c.definitelyNonNilErr(ret.Results[1], ret.Block(), 0) {
				bad = true
			}
		}
		// a return that hands out values must lie on the err == io.EOF edge of the Read call: that is the
		// only state in which bytes.Reader has consumed the payload completely (a short read has err == nil)
		if why := c.valuesOnlyAtEOF(r); why != "" {
			c.violate("R13", "R13:D4eof:"+fname(r), c.pos(r.Pos()), why)
		} else if c.usesReaderRead(r) {
			c.discharge("R13", "R13:D4eof:"+fname(r), c.pos(r.Pos()), "values are returned only when Read reported io.EOF (payload consumed in whole elements)")
		}
		switch {
		case !bad:
			c.discharge("R13", key, c.pos(r.Pos()), "every return without values carries a definitely non-nil error")
		case gateOK:
			c.discharge("R13", key, c.pos(r.Pos()), "a short tail yields (nil, nil) from the reader, but the element-count gate (D6) turns the missing elements into an error")
		default:
			c.violate("R13", key, c.pos(r.Pos()), "a payload with a trailing partial element returns (nil, nil) and no count gate follows: the tensor is loaded as zeros")
		}
	}
}

// checkD5: every value reaching tensor construction was produced under a supported data_type case.
func (c *Ctx) checkD5(di *decodeInfo, byName map[string]onnxType) {
	key := "R13:D5"
	if di.newCall == nil || di.valuesPhi == nil {
		c.violate("R13", key, c.pos(di.fn.Pos()), "tensor construction from decoded values not found")
		return
	}
	underCase := func(b *ssa.BasicBlock) (string, bool) {
		for d := b; d != nil; d = d.Idom() {
			if n, ok := di.caseOf[d]; ok {
				return n, true
			}
		}
		return "", false
	}
	badSite := ""
	fallbackTypes := map[string]bool{}
	var visit func(v ssa.Value, from *ssa.BasicBlock, depth int)
	visit = func(v ssa.Value, from *ssa.BasicBlock, depth int) {
		if depth > 4 {
			return
		}
		if p, ok := v.(*ssa.Phi); ok {
			for i, e := range p.Edges {
				visit(e, p.Block().Preds[i], depth+1)
			}
			return
		}
		blk := from
		if in, ok := v.(ssa.Instruction); ok && in.Block() != nil {
			blk = in.Block()
		}
		n, ok := underCase(blk)
		if ok {
			if _, sup := byName[n]; sup {
				// the value must be decoded by that case's own decoder (D1 pairs case and decoder)
				return
			}
			fallbackTypes[n] = true
		} else {
			fallbackTypes["any"] = true
		}
		if in, ok := v.(ssa.Instruction); ok && badSite == "" {
			badSite = c.pos(in.Pos())
		}
	}
	visit(di.valuesPhi, di.newCall.Block(), 0)
	if len(fallbackTypes) == 0 {
		c.discharge("R13", key, c.pos(di.newCall.Pos()), "only values decoded under an explicit supported data_type case are turned into a tensor; every other data_type returns an error")
		return
	}
	names := sortedKeys(fallbackTypes)
	c.violate("R13", key+":fallback:"+strings.Join(names, ","), firstNonEmpty(badSite, c.pos(di.newCall.Pos())),
		"values decoded outside the 11 supported data_type cases reach tensor construction (data_type "+strings.Join(names, ",")+" is loaded through whichever typed field is populated, i.e. as a different element type, instead of being refused)")
}

// ---- D6: the element-count / dims gate ------------------------------------------------------

type labelFn func(v ssa.Value) map[string]bool

// backward derivation labels: "count" (len / Len of the decoded values), "dims" (value derived from
// the Dims field), "mul" (a multiplication is involved).
func (c *Ctx) deriveLabels(v ssa.Value, seeds map[ssa.Value]string, seen map[ssa.Value]bool, out map[string]bool, depth int) {
	if v == nil || seen[v] || depth > 12 {
		return
	}
	seen[v] = true
	if l, ok := seeds[v]; ok {
		out[l] = true
	}
	switch x := v.(type) {
	case *ssa.Phi:
		for _, e := range x.Edges {
			c.deriveLabels(e, seeds, seen, out, depth+1)
		}
	case *ssa.BinOp:
		if x.Op == token.MUL {
			out["mul"] = true
		}
		c.deriveLabels(x.X, seeds, seen, out, depth+1)
		c.deriveLabels(x.Y, seeds, seen, out, depth+1)
	case *ssa.UnOp:
		c.deriveLabels(x.X, seeds, seen, out, depth+1)
	case *ssa.Convert:
		c.deriveLabels(x.X, seeds, seen, out, depth+1)
	case *ssa.ChangeType:
		c.deriveLabels(x.X, seeds, seen, out, depth+1)
	case *ssa.MakeInterface:
		c.deriveLabels(x.X, seeds, seen, out, depth+1)
	case *ssa.TypeAssert:
		c.deriveLabels(x.X, seeds, seen, out, depth+1)
	case *ssa.ChangeInterface:
		c.deriveLabels(x.X, seeds, seen, out, depth+1)
	case *ssa.IndexAddr:
		c.deriveLabels(x.X, seeds, seen, out, depth+1)
	case *ssa.Index:
		c.deriveLabels(x.X, seeds, seen, out, depth+1)
	case *ssa.Slice:
		c.deriveLabels(x.X, seeds, seen, out, depth+1)
	case *ssa.Extract:
		c.deriveLabels(x.Tuple, seeds, seen, out, depth+1)
	case *ssa.FieldAddr:
		if nn, st := structOfPtr(x.X.Type()); nn != nil && nn.Obj().Name() == "TensorProto" && st.Field(x.Field).Name() == "Dims" {
			out["dims"] = true
		}
		c.deriveLabels(x.X, seeds, seen, out, depth+1)
	case *ssa.Alloc:
		// an array (the operand list of a variadic call, append's second operand): contents come from stores
		for _, r := range *x.Referrers() {
			if ia, ok := r.(*ssa.IndexAddr); ok {
				for _, r2 := range *ia.Referrers() {
					if st, ok := r2.(*ssa.Store); ok && st.Addr == ia {
						c.deriveLabels(st.Val, seeds, seen, out, depth+1)
					}
				}
			}
		}
	case *ssa.MakeSlice:
		// contents come from stores
		for _, r := range *x.Referrers() {
			if ia, ok := r.(*ssa.IndexAddr); ok {
				for _, r2 := range *ia.Referrers() {
					if st, ok := r2.(*ssa.Store); ok && st.Addr == ia {
						c.deriveLabels(st.Val, seeds, seen, out, depth+1)
					}
				}
			}
		}
	case *ssa.Call:
		cc := x.Common()
		if b, ok := cc.Value.(*ssa.Builtin); ok {
			if b.Name() == "len" {
				sub := map[string]bool{}
				c.deriveLabels(cc.Args[0], seeds, map[ssa.Value]bool{}, sub, depth+1)
				if sub["values"] {
					out["count"] = true
				}
				if sub["dims"] {
					out["rank"] = true
				}
				return
			}
			for _, a := range cc.Args {
				c.deriveLabels(a, seeds, seen, out, depth+1)
			}
			return
		}
		name := ""
		if o := calleeObj(x); o != nil {
			name = o.Name()
		}
		if name == "GetDims" {
			out["dims"] = true
		}
		if name == "Len" || name == "Size" {
			sub := map[string]bool{}
			if cc.IsInvoke() {
				c.deriveLabels(cc.Value, seeds, map[ssa.Value]bool{}, sub, depth+1)
			}
			for _, a := range cc.Args {
				c.deriveLabels(a, seeds, map[ssa.Value]bool{}, sub, depth+1)
			}
			if sub["values"] {
				out["count"] = true
				return
			}
		}
		if cc.IsInvoke() {
			c.deriveLabels(cc.Value, seeds, seen, out, depth+1)
		}
		for _, a := range cc.Args {
			c.deriveLabels(a, seeds, seen, out, depth+1)
		}
		// library callee: its returns, with parameters labelled by the arguments' labels
		if f := cc.StaticCallee(); f != nil && isLibFn(f) && f.Blocks != nil && depth < 6 {
			sub := map[ssa.Value]string{}
			for i, a := range cc.Args {
				al := map[string]bool{}
				c.deriveLabels(a, seeds, map[ssa.Value]bool{}, al, depth+1)
				for _, l := range []string{"values", "dims", "count"} {
					if al[l] && i < len(f.Params) {
						sub[f.Params[i]] = l
					}
				}
			}
			for _, r := range returnsOf(f) {
				for _, rv := range r.Results {
					c.deriveLabels(rv, sub, map[ssa.Value]bool{}, out, depth+2)
				}
			}
		}
	}
}

func (c *Ctx) labelsOf(v ssa.Value, seeds map[ssa.Value]string) map[string]bool {
	out := map[string]bool{}
	c.deriveLabels(v, seeds, map[ssa.Value]bool{}, out, 0)
	if !out["count"] {
		// a count that travels beside the values (returned with them by a helper, merged by a parallel phi)
		for sv, l := range seeds {
			if l == "values" && isIntType(v.Type()) && c.lenRel(v, sv, 0) {
				out["count"] = true
			}
		}
	}
	return out
}

// lenRel: is n the number of elements of vals on every path? n = len(X) / reflect Len of X with vals = X (through
// interface conversions); both components of one call of a library helper every return of which relates them;
// two phis of one block whose edges are related pairwise (0 beside nil counts: an empty list).
func (c *Ctx) lenRel(n, vals ssa.Value, depth int) bool {
	if depth > 6 {
		return false
	}
	strip := func(v ssa.Value) ssa.Value {
		for {
			switch x := v.(type) {
			case *ssa.MakeInterface:
				v = x.X
			case *ssa.ChangeType:
				v = x.X
			case *ssa.ChangeInterface:
				v = x.X
			default:
				return v
			}
		}
	}
	vals = strip(vals)
	if k, ok := n.(*ssa.Const); ok {
		if vk, ok := vals.(*ssa.Const); ok && vk.Value == nil {
			if i, isInt := constInt(k); isInt && i == 0 {
				return true
			}
		}
		return false
	}
	switch x := n.(type) {
	case *ssa.Call:
		cc := x.Common()
		if b, ok := cc.Value.(*ssa.Builtin); ok && b.Name() == "len" && len(cc.Args) == 1 {
			return strip(cc.Args[0]) == vals
		}
		if o := calleeObj(x); o != nil && o.Name() == "Len" && o.Pkg() != nil && o.Pkg().Path() == "reflect" && len(cc.Args) == 1 {
			if vo, ok := cc.Args[0].(*ssa.Call); ok {
				if o2 := calleeObj(vo); o2 != nil && o2.Name() == "ValueOf" && len(vo.Common().Args) == 1 {
					return strip(vo.Common().Args[0]) == vals
				}
			}
		}
	case *ssa.Phi:
		vp, ok := vals.(*ssa.Phi)
		if !ok || vp.Block() != x.Block() || len(vp.Edges) != len(x.Edges) {
			return false
		}
		for i := range x.Edges {
			if !c.lenRel(x.Edges[i], vp.Edges[i], depth+1) {
				return false
			}
		}
		return true
	case *ssa.Extract:
		ve, ok := vals.(*ssa.Extract)
		if !ok || ve.Tuple != x.Tuple {
			// n, ok := count(vals): a library helper handed the values, every return of which answers with the
			// length of its argument seen through a type assertion (or with a constant beside a false flag)
			if call, isCall := x.Tuple.(*ssa.Call); isCall {
				if f := call.Common().StaticCallee(); f != nil && isLibFn(f) && f.Blocks != nil && len(call.Common().Args) == 1 && len(f.Params) == 1 && strip(call.Common().Args[0]) == vals {
					fromParam := func(v ssa.Value) bool {
						for i := 0; i < 6; i++ {
							switch y := v.(type) {
							case *ssa.Parameter:
								return y == f.Params[0]
							case *ssa.TypeAssert:
								v = y.X
							case *ssa.Extract:
								ta, isTA := y.Tuple.(*ssa.TypeAssert)
								if !isTA || y.Index != 0 {
									return false
								}
								v = ta.X
							case *ssa.MakeInterface:
								v = y.X
							case *ssa.ChangeInterface:
								v = y.X
							default:
								return false
							}
						}
						return false
					}
					rs := returnsOf(f)
					okAll := len(rs) > 0
					for _, r := range rs {
						rv := r.Results[x.Index]
						if lc, isLen := rv.(*ssa.Call); isLen {
							if bi, isB := lc.Common().Value.(*ssa.Builtin); isB && bi.Name() == "len" && len(lc.Common().Args) == 1 && fromParam(lc.Common().Args[0]) {
								continue
							}
						}
						// a refusal: a constant count next to a false flag
						refusal := false
						if _, isK := rv.(*ssa.Const); isK {
							for j, o := range r.Results {
								if k, isKB := o.(*ssa.Const); j != x.Index && isKB && k.Value != nil && k.Value.Kind() == constant.Bool && !constant.BoolVal(k.Value) {
									refusal = true
								}
							}
						}
						if !refusal {
							okAll = false
						}
					}
					return okAll
				}
			}
			return false
		}
		call, ok := x.Tuple.(*ssa.Call)
		if !ok {
			return false
		}
		f := call.Common().StaticCallee()
		if f == nil || !isLibFn(f) || f.Blocks == nil {
			return false
		}
		rs := returnsOf(f)
		for _, r := range rs {
			if !c.lenRel(r.Results[x.Index], r.Results[ve.Index], depth+1) {
				return false
			}
		}
		return len(rs) > 0
	}
	return false
}

// checkD6 decides whether tensor construction is dominated by (a) a rejecting equality between the
// element count of the values and the product of the dims and (b) a rejecting lower bound on each dim.
func (c *Ctx) checkD6(di *decodeInfo) (bool, string) {
	if di.newCall == nil || di.valuesPhi == nil {
		return false, "tensor construction from decoded values not found"
	}
	seeds := map[ssa.Value]string{di.valuesPhi: "values"}
	// values may be re-wrapped (MakeInterface of the same phi etc.)
	countEq, dimLower := c.gateAt(di.fn, di.newCall.Block(), seeds, 0)
	if c.d6Witness != "" && (!countEq || !dimLower) {
		return false, "the dims/count gate gives the wrong answer: " + c.d6Witness
	}
	switch {
	case !countEq && !dimLower:
		return false, "tensor.New(WithShape(dims), WithBacking(values)) is reached without comparing the number of decoded elements with the product of the declared dims and without a lower bound on the dims: short/empty payloads load as zeros, mismatches, negative or zero dims panic inside gorgonia"
	case !countEq:
		return false, "no rejecting comparison between the number of decoded elements and the product of the declared dims dominates tensor construction"
	case !dimLower:
		return false, "declared dims are not checked to be >= 1 before tensor construction (negative or zero dims panic inside gorgonia)"
	}
	return true, ""
}

func (c *Ctx) gateAt(fn *ssa.Function, at *ssa.BasicBlock, seeds map[ssa.Value]string, depth int) (countEq, dimLower bool) {
	for _, g := range guardsOf(at) {
		for _, a := range atomsOf(g) {
			if a.op == token.EQL && !isNilConst(a.y) && !isNilConst(a.x) {
				lx, ly := c.labelsOf(a.x, seeds), c.labelsOf(a.y, seeds)
				if ((lx["count"] && ly["dims"] && ly["mul"]) || (ly["count"] && lx["dims"] && lx["mul"])) && c.edgeRejectsAt(g) {
					countEq = true
				}
			}
			// err == nil of a library helper that received both values/count and dims
			if a.op == token.EQL && (isNilConst(a.y) || isNilConst(a.x)) && depth < 2 {
				ev := a.x
				if isNilConst(a.x) {
					ev = a.y
				}
				var call *ssa.Call
				switch e := ev.(type) {
				case *ssa.Call:
					call = e
				case *ssa.Extract:
					call, _ = e.Tuple.(*ssa.Call)
				}
				if call == nil || !c.edgeRejectsAt(g) {
					continue
				}
				f := call.Common().StaticCallee()
				if f == nil || !isLibFn(f) || f.Blocks == nil {
					continue
				}
				sub := map[ssa.Value]string{}
				for i, arg := range call.Common().Args {
					al := c.labelsOf(arg, seeds)
					if os.Getenv("D6DEBUG") != "" {
						fmt.Println("D6DEBUG call", fname(f), "arg", i, al)
					}
					if i >= len(f.Params) {
						continue
					}
					switch {
					case al["count"] && isIntType(arg.Type()):
						sub[f.Params[i]] = "count" // an integer derived from the values is their number, not the values
					case al["values"]:
						sub[f.Params[i]] = "values"
					case al["count"]:
						sub[f.Params[i]] = "count"
					case al["dims"]:
						sub[f.Params[i]] = "dims"
					}
				}
				if len(sub) == 0 {
					continue
				}
				// a helper that receives the dims and the count: its answer over a finite table of (dims, count) cells
				// decides, whatever its control flow looks like
				dIdx, cIdx := -1, -1
				for i, prm := range f.Params {
					switch sub[prm] {
					case "dims":
						dIdx = i
					case "count":
						cIdx = i
					}
				}
				if dIdx >= 0 && cIdx >= 0 {
					if known, pass, wit := c.dimsGateTable(f, dIdx, cIdx); known {
						if pass {
							countEq, dimLower = true, true
							continue
						}
						c.d6Witness = wit
					}
				}
				// facts that hold at every nil-error return of the helper
				ce, dl := true, true
				n := 0
				idx := errResultIndex(f.Signature)
				for _, r := range returnsOf(f) {
					if idx >= 0 && !isNilConst(r.Results[idx]) {
						continue
					}
					n++
					e1, d1 := c.gateAt(f, r.Block(), sub, depth+1)
					ce = ce && e1
					dl = dl && d1
				}
				if n > 0 {
					countEq = countEq || ce
					dimLower = dimLower || dl
				}
			}
		}
	}
	// lower bound on every dim: a loop over the dims that dominates `at`, each iteration rejecting d < 1
	for _, b := range fn.Blocks {
		if len(b.Instrs) == 0 {
			continue
		}
		iff, ok := b.Instrs[len(b.Instrs)-1].(*ssa.If)
		if !ok {
			continue
		}
		for _, truth := range []bool{true, false} {
			for _, a := range atomsOf(guard{cond: iff.Cond, truth: truth, at: b}) {
				// rejecting atom: d < 1, d <= 0  (on this edge)
				k, isK := constInt(a.y)
				if !isK {
					continue
				}
				if !((a.op == token.LSS && k == 1) || (a.op == token.LEQ && k == 0)) {
					continue
				}
				l := c.labelsOf(a.x, seeds)
				if !l["dims"] || l["mul"] || l["rank"] && !l["dims"] {
					continue
				}
				if !c.edgeRejects(iff, truth) {
					continue
				}
				// inside a loop whose header dominates `at` and which covers all elements
				hdr := enclosingLoopHeader(b)
				if hdr != nil && hdr.Dominates(at) && hdr != at {
					dimLower = true
				}
			}
		}
	}
	return
}

// enclosingLoopHeader: nearest dominator of b that has a back edge from a block it dominates and from which b is reachable within the loop.
func enclosingLoopHeader(b *ssa.BasicBlock) *ssa.BasicBlock {
	for d := b; d != nil; d = d.Idom() {
		for _, p := range d.Preds {
			if d.Dominates(p) && (p == b || reachesWithin(b, p, d)) {
				return d
			}
		}
	}
	return nil
}

func reachesWithin(from, to, hdr *ssa.BasicBlock) bool {
	if from == to {
		return true
	}
	seen := map[*ssa.BasicBlock]bool{hdr: true}
	st := []*ssa.BasicBlock{from}
	for len(st) > 0 {
		x := st[len(st)-1]
		st = st[:len(st)-1]
		if x == to {
			return true
		}
		if seen[x] {
			continue
		}
		seen[x] = true
		st = append(st, x.Succs...)
	}
	return false
}

func (c *Ctx) usesReaderRead(r *ssa.Function) bool {
	for _, b := range r.Blocks {
		for _, in := range b.Instrs {
			if call, ok := in.(*ssa.Call); ok {
				if o := calleeObj(call); o != nil && qualName(o) == "bytes.(Reader).Read" {
					return true
				}
			}
		}
	}
	return false
}

func (c *Ctx) valuesOnlyAtEOF(r *ssa.Function) string {
	var readCall *ssa.Call
	for _, b := range r.Blocks {
		for _, in := range b.Instrs {
			if call, ok := in.(*ssa.Call); ok {
				if o := calleeObj(call); o != nil && qualName(o) == "bytes.(Reader).Read" {
					readCall = call
				}
			}
		}
	}
	if readCall == nil {
		return ""
	}
	errV := resultOfCall(readCall, 1)
	isEOF := func(v ssa.Value) bool {
		ld, ok := v.(*ssa.UnOp)
		if !ok {
			return false
		}
		g, ok := ld.X.(*ssa.Global)
		return ok && g.Name() == "EOF" && g.Pkg != nil && g.Pkg.Pkg.Path() == "io"
	}
	for _, ret := range returnsOf(r) {
		if isNilConst(ret.Results[0]) || !isNilConst(ret.Results[1]) {
			continue
		}
		ok := false
		for _, g := range guardsOf(ret.Block()) {
			for _, a := range atomsOf(g) {
				if a.op == token.EQL && ((a.x == errV && isEOF(a.y)) || (a.y == errV && isEOF(a.x))) {
					ok = true
				}
			}
		}
		if !ok {
			return "decoded values are returned on a path where the reader did not report io.EOF: after a short read (trailing partial element) the elements decoded so far are handed out as if the payload were complete"
		}
	}
	return ""
}

// dimsGateTable interprets a helper gate(dims []int, count int) error over every dims list of length 0..3 with
// extents in {-1,0,1,2,3} and every count a product of such extents can take (and a few others): it must return
// nil exactly when every extent is >= 1 and their product is the count. known=false when a cell cannot be
// followed to one answer (the structural rule decides then).
func (c *Ctx) dimsGateTable(f *ssa.Function, dIdx, cIdx int) (known, pass bool, witness string) {
	key := fmt.Sprintf("%p/%d/%d", f, dIdx, cIdx)
	if r, ok := c.dimsGateMemo[key]; ok {
		return r.known, r.pass, r.wit
	}
	defer func() {
		if c.dimsGateMemo == nil {
			c.dimsGateMemo = map[string]dimsGateRes{}
		}
		c.dimsGateMemo[key] = dimsGateRes{known, pass, witness}
	}()
	eIdx := errResultIndex(f.Signature)
	if eIdx < 0 || !isIntType(f.Params[cIdx].Type()) {
		return false, false, ""
	}
	if st, ok := f.Params[dIdx].Type().Underlying().(*types.Slice); !ok || !isIntType(st.Elem()) {
		return false, false, ""
	}
	vals := []int64{-1, 0, 1, 2, 3}
	var lists [][]int64
	lists = append(lists, []int64{})
	for n := 1; n <= 3; n++ {
		idx := make([]int, n)
		for {
			l := make([]int64, n)
			for i, k := range idx {
				l[i] = vals[k]
			}
			lists = append(lists, l)
			i := n - 1
			for ; i >= 0; i-- {
				idx[i]++
				if idx[i] < len(vals) {
					break
				}
				idx[i] = 0
			}
			if i < 0 {
				break
			}
		}
	}
	counts := []int64{0, 1, 2, 3, 4, 5, 6, 7, 8, 9, 12, 18, 27}
	cells := 0
	cov := newCover(f)
	// extents whose product wraps around in machine integers (the walk multiplies as the machine does): a declared
	// shape far larger than the payload must not pass because its wrapped product happens to equal the count
	nLists := len(lists)
	lists = append(lists, []int64{1 << 32, 1 << 32}, []int64{1 << 62, 4}, []int64{1 << 32, 1 << 31, 2, 3}, []int64{3, 1 << 63 / 3 * 2})
	for li, l := range lists {
		for _, n := range counts {
			if li >= nLists && n > 4 {
				continue
			}
			p := &pinterp{c: c, budget: 20000, cover: cov}
			heap := newHeap()
			pl := make([]pval, len(l))
			allPos, prod := true, int64(1)
			for i, v := range l {
				pl[i] = pval{k: pInt, i: v}
				if v < 1 {
					allPos = false
				}
				if prod >= 0 && v > 0 && prod > (1<<62)/v {
					prod = -1 // the true product is beyond every count of the table
				} else if prod >= 0 {
					prod *= v
				}
			}
			args := make([]pval, len(f.Params))
			args[dIdx] = heap.alloc(pl)
			args[cIdx] = pval{k: pInt, i: n}
			res, _ := p.run(f, args, 0, heap)
			if p.aborted || len(res) <= eIdx {
				return false, false, ""
			}
			var accepted bool
			switch {
			case res[eIdx].k == pNil:
				accepted = true
			case nonNilKind(res[eIdx].k):
				accepted = false
			default:
				return false, false, ""
			}
			cells++
			want := allPos && prod == n
			if accepted != want {
				verb := "accepted"
				if !accepted {
					verb = "refused"
				}
				return true, false, fmt.Sprintf("%s %s dims %v for %d decoded elements", fname(f), verb, l, n)
			}
		}
	}
	if unc := cov.uncovered(c); len(unc) > 0 {
		c.declined("dims gate table of "+fname(f), unc)
		return false, false, ""
	}
	c.counts["R13:D6:gate-table-cells"] = cells
	return true, true, ""
}

type dimsGateRes struct {
	known, pass bool
	wit         string
}

// convsOrOneComparison: conversions, and at most one comparison of the element with zero or one (the bool forms
// b > 0, b != 0, b == 1); no arithmetic.
func convsOrOneComparison(trail string) bool {
	cmp := 0
	for _, st := range strings.Split(trail, "|") {
		switch {
		case st == "" || strings.HasPrefix(st, "conv:"):
		case st == "x > 0", st == "x != 0", st == "0 < x", st == "0 != x", st == "x == 1", st == "1 == x", st == "x >= 1", st == "1 <= x":
			cmp++
		default:
			return false
		}
	}
	return cmp <= 1
}

// applyDecodeTable: the dispatch clauses (D1 per type, D2 per type, D5 for unsupported types) as the finite table
// decides them, where the structural reading of the switch does not recognise the code. The fallback for
// UNDEFINED (a known finding with a key of its own) is left to D5.
func (c *Ctx) applyDecodeTable(from int) {
	needed := false
	for i := from; i < len(c.obls); i++ {
		o := c.obls[i]
		if !o.Control && (o.Status == StViolated || o.Status == StUndecided) && (strings.HasPrefix(o.Key, "R13:D1:") || strings.HasPrefix(o.Key, "R13:D2:") || o.Key == "R13:D5:fallback:any" || o.Key == "R13:floor") {
			needed = true
		}
	}
	_ = needed
	t := c.decodeTable()
	if os.Getenv("DECODEDEBUG") != "" {
		fmt.Println("DECODEDEBUG table", t.known, t.cells, t.bads)
	}
	// the table is an obligation of its own: the dispatch can be right as the structural rules read it and a cell
	// still be answered wrongly (a check added after the dispatch that refuses a supported encoding)
	if di := c.decodeInfo(); di != nil {
		site := c.pos(di.fn.Pos())
		switch {
		case !t.known:
			c.note("R13", "R13:dispatch-table", site, "the dispatch table cannot follow the decoder to one outcome per cell; the structural rules D1, D2, D5 decide")
		case len(t.bads) > 0:
			var ks []string
			for k := range t.bads {
				ks = append(ks, k)
			}
			sort.Strings(ks)
			c.violate("R13", "R13:dispatch-table", site, t.bads[ks[0]])
		default:
			c.discharge("R13", "R13:dispatch-table", site, fmt.Sprintf("%d cells (data_type codes x the field that holds the payload): a supported type is loaded from its ONNX field or from raw_data and refused from any other, unsupported types are refused", t.cells))
		}
	}
	if !t.known {
		return
	}
	c.counts["R13.dispatch_table_cells"] = t.cells
	for i := from; i < len(c.obls); i++ {
		o := &c.obls[i]
		if o.Control || (o.Status != StViolated && o.Status != StUndecided) {
			continue
		}
		bad, mine := "", false
		switch {
		case strings.HasPrefix(o.Key, "R13:D1:") || strings.HasPrefix(o.Key, "R13:D2:"):
			name := strings.TrimPrefix(strings.TrimPrefix(o.Key, "R13:D1:"), "R13:D2:")
			if j := strings.Index(name, ":"); j >= 0 {
				continue // helper-level obligations (narrowing functions) have rules of their own
			}
			for _, ot := range onnxTypes {
				if ot.name == name {
					mine, bad = true, t.bads[name]
				}
			}
		case o.Key == "R13:D5:fallback:any":
			mine, bad = true, t.bads["unsupported"]
		case o.Key == "R13:floor":
			mine = len(t.bads) == 0
		}
		if !mine {
			continue
		}
		if bad == "" {
			o.Status, o.Why = StDischarged, "by the finite dispatch table (the structural reading of the dispatch is not recognised): "+fmt.Sprint(t.cells)+" cells"
		} else {
			o.Status, o.Why = StViolated, bad
		}
	}
}

// edgeReturnsNoValues: every return reachable from that edge of the branch hands out a nil first result.
func edgeReturnsNoValues(iff *ssa.If, truth bool) bool {
	b := iff.Block().Succs[1]
	if truth {
		b = iff.Block().Succs[0]
	}
	seen := map[*ssa.BasicBlock]bool{}
	var walk func(x *ssa.BasicBlock, d int) bool
	walk = func(x *ssa.BasicBlock, d int) bool {
		if seen[x] {
			return true
		}
		seen[x] = true
		if d > 6 || len(x.Instrs) == 0 {
			return false
		}
		switch t := x.Instrs[len(x.Instrs)-1].(type) {
		case *ssa.Return:
			return len(t.Results) >= 1 && isNilConst(t.Results[0])
		case *ssa.Panic:
			return true
		}
		if len(x.Succs) == 0 {
			return false
		}
		for _, s := range x.Succs {
			if !walk(s, d+1) {
				return false
			}
		}
		return true
	}
	return walk(b, 0)
}
