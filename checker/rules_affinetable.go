package main

// Gemm, Scaler and LinearRegressor by finite dataflow table (C04): Apply walked on abstract tensors, every gorgonia
// operation yielding a node (operation, operands; nothing is computed), the unidirectional broadcast helper
// answering with its operands (its own contract is R36's business). The single output is compared, modulo the
// order of sums and products, with the ONNX definition written over the same leaves:
//
//	Gemm             alpha * A' * B' (+ beta * C), A' = A or its transpose by transA, B' likewise
//	Scaler           (X - offset) * scale
//	LinearRegressor  X * coefficients (+ intercepts)

import (
	"fmt"
	"go/types"
	"strings"

	"golang.org/x/tools/go/ssa"
)

type affineCell struct {
	transA, transB, hasC bool // Gemm
	hasIntercepts        bool // LinearRegressor
}

func (c *Ctx) affineTable(name string) (known bool, bad string, cells int) {
	oi := c.opByName(name)
	st := c.libInit()
	if oi == nil || oi.methods["Apply"] == nil || len(st.failed) > 0 {
		return false, "", 0
	}
	apply := oi.methods["Apply"]
	stt, ok := oi.named.Underlying().(*types.Struct)
	if !ok {
		return false, "", 0
	}
	var list []affineCell
	switch name {
	case "Gemm":
		for _, ta := range []bool{false, true} {
			for _, tb := range []bool{false, true} {
				for _, hc := range []bool{false, true} {
					list = append(list, affineCell{transA: ta, transB: tb, hasC: hc})
				}
			}
		}
	case "Scaler":
		list = []affineCell{{}}
	case "LinearRegressor":
		list = []affineCell{{hasIntercepts: true}, {}}
	}
	cov := newCover(apply)
	for _, cell := range list {
		r := &recRun{c: c, nodes: map[int64]*recNode{}, shape: map[int64][]int64{}, canon: map[int64]string{}, acts: map[int64]string{}, next: 30000, reshape: map[int64][]int64{}}
		heap := st.heap.clone()
		recv := heap.newObj(oi.named)
		setField := func(fname string, v pval) bool {
			for i := 0; i < stt.NumFields(); i++ {
				if stt.Field(i).Name() == fname {
					heap.objs[recv.i].fields[i] = v
					return true
				}
			}
			return false
		}
		leaf := func(n string) pval { return r.node("leaf", n) }
		var inputs []pval
		want, desc := "", ""
		okSetup := true
		switch name {
		case "Gemm":
			okSetup = setField("alpha", leaf("alpha")) && setField("beta", leaf("beta")) && setField("transA", pval{k: pBool, b: cell.transA}) && setField("transB", pval{k: pBool, b: cell.transB})
			inputs = []pval{leaf("A"), leaf("B"), {k: pNil}}
			if cell.hasC {
				inputs[2] = leaf("C")
			}
			a, b := "A", "B"
			if cell.transA {
				a += "T"
			}
			if cell.transB {
				b += "T"
			}
			want = prodOf("alpha", "mm("+a+","+b+")")
			if cell.hasC {
				want = sumOf(want, prodOf("beta", "C"))
			}
			desc = fmt.Sprintf("transA=%v, transB=%v, C given=%v", cell.transA, cell.transB, cell.hasC)
		case "Scaler":
			okSetup = setField("offset", leaf("offset")) && setField("scale", leaf("scale"))
			inputs = []pval{leaf("X")}
			want = prodOf("Sub(X,offset)", "scale")
			desc = "offset and scale given"
		case "LinearRegressor":
			okSetup = setField("coefficients", leaf("coefficients"))
			if cell.hasIntercepts {
				okSetup = okSetup && setField("intercepts", leaf("intercepts"))
			}
			inputs = []pval{leaf("X")}
			want = "mm(X,coefficients)"
			if cell.hasIntercepts {
				want = sumOf(want, "intercepts")
			}
			desc = fmt.Sprintf("intercepts given=%v", cell.hasIntercepts)
		}
		if !okSetup {
			return false, "", cells
		}
		isT := func(v pval) bool { return v.k == pAbs && v.s == "tensor" && r.nodes[v.i] != nil }
		p := &pinterp{c: c, budget: 300000, objects: true, globals: st.globals, cover: cov}
		p.onPanic = func(fn *ssa.Function, in ssa.Instruction, what string) { r.setBad("panics: " + what) }
		p.onInvoke = func(fn *ssa.Function, call *ssa.Call, rv pval, method string, args []pval, h *pheap) ([]pval, bool) {
			if !isT(rv) {
				return nil, false
			}
			switch method {
			case "Clone", "Materialize":
				return []pval{r.node("id", "", rv.i)}, true
			case "T":
				return []pval{{k: pPoison}}, true // in-place transposition of an operand: not followed (R3 reports it)
			}
			return nil, false
		}
		var ubOrder []string
		p.extModel = func(key string, call *ssa.Call, ops []pval, h *pheap) ([]pval, bool) {
			nm := key[len(pkgTensor)+1:]
			switch nm {
			case "Add", "Mul", "Sub", "Div":
				if len(ops) >= 3 && !(ops[2].k == pNil || ops[2].k == pList && len(h.lists[ops[2].i]) == 0) {
					return nil, false // WithReuse / UseUnsafe / WithIncr: the operation writes into an operand, not this table's vocabulary
				}
				if len(ops) >= 2 && isT(ops[0]) && isT(ops[1]) {
					return []pval{r.node(nm, "", ops[0].i, ops[1].i), {k: pNil}}, true
				}
			case "MatMul":
				if len(ops) >= 2 && isT(ops[0]) && isT(ops[1]) {
					return []pval{r.node("mm", "nn", ops[0].i, ops[1].i), {k: pNil}}, true
				}
			case "Transpose":
				if len(ops) >= 1 && isT(ops[0]) {
					if len(ops) >= 2 && ops[1].k == pList && len(h.lists[ops[1].i]) > 0 {
						return nil, false // an explicit permutation: not this table's vocabulary
					}
					return []pval{r.node("T", "", ops[0].i), {k: pNil}}, true
				}
			}
			return nil, false
		}
		p.intercept = func(fn *ssa.Function, call *ssa.Call, callee *ssa.Function, args []pval, h *pheap) ([]pval, bool) {
			if callee.Parent() == nil && fnPkgPath(callee) == pkgOps && callee.Signature.Recv() == nil && callee.Name() == "UnidirectionalBroadcast" && len(args) == 2 && isT(args[0]) && isT(args[1]) {
				ubOrder = append(ubOrder, r.term(args[0].i)+" <- "+r.term(args[1].i))
				return []pval{r.node("id", "", args[0].i), r.node("id", "", args[1].i), {k: pNil}}, true
			}
			if callee.Parent() == nil && fnPkgPath(callee) == pkgOps && callee.Signature.Recv() == nil && callee.Name() == "MultidirectionalBroadcast" {
				r.setBad("the operands are paired by the multidirectional broadcast helper: the output can take the shape of the bias / offset / scale operand")
				return []pval{{k: pPoison}, {k: pPoison}, {k: pPoison}}, true
			}
			return nil, false
		}
		res, h := p.run(apply, []pval{recv, heap.alloc(inputs)}, 0, heap)
		if r.bad != "" {
			return true, fmt.Sprintf("%s with %s: %s", name, desc, r.bad), cells
		}
		if p.aborted || len(res) != 2 || h == nil {
			return false, "", cells
		}
		if nonNilKind(res[1].k) {
			return true, fmt.Sprintf("%s with %s is refused", name, desc), cells
		}
		if res[1].k != pNil && res[1].k != pUnknown {
			return false, "", cells
		}
		if res[0].k != pList || h.lists[res[0].i] == nil {
			return false, "", cells
		}
		outs := h.lists[res[0].i]
		if len(outs) != 1 || !isT(outs[0]) {
			return false, "", cells
		}
		cells++
		got := r.term(outs[0].i)
		if got != want {
			return true, fmt.Sprintf("%s with %s computes %s, the ONNX definition is %s", name, desc, got, want), cells
		}
		// the broadcast pairs: the product (or the data) is the reference shape, the bias-like operand is stretched
		for _, o := range ubOrder {
			left := strings.SplitN(o, " <- ", 2)[0]
			if left == "C" || left == "offset" || left == "scale" || left == "intercepts" || strings.HasPrefix(left, "prod{C,") || strings.HasPrefix(left, "prod{beta,C") {
				return true, fmt.Sprintf("%s with %s broadcasts the result to the shape of %s (operands of the unidirectional helper exchanged)", name, desc, left), cells
			}
		}
	}
	if unc := cov.uncovered(c); len(unc) > 0 {
		c.declined("dataflow table of "+name, unc)
		return false, "", cells
	}
	return true, "", cells
}
