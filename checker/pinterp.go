package main

// A partial path interpreter over SSA: integers, booleans, "the k-th input tensor", its shape and the receiver
// are tracked exactly, everything else is unknown. A branch on a known condition is followed, a branch on an
// unknown condition forks. It is NOT execution of the library: no gonnx or gorgonia code runs, the walk is over
// the instruction graph with a handful of symbolic atoms bound to small integers (a finite table), and every
// value it cannot follow is simply unknown — an unknown never produces a report.
//
// Used by R9f (no valid axis is refused): for every rank r and every valid spelling a of the axis the walk
// looks for a branch whose condition is fully determined by (a, r) and whose taken edge always returns an error.

import (
	"go/constant"
	"go/token"
	"go/types"

	"golang.org/x/tools/go/ssa"
)

type pkind uint8

const (
	pUnknown pkind = iota
	pInt
	pBool
	pTensor // the i-th element of Apply's inputs
	pShape  // Shape() of the i-th input
	pRecv   // the operator receiver
	pInputs // Apply's inputs slice
)

type pval struct {
	k   pkind
	i   int64
	b   bool
	dep bool // derives from the seeded user value
}

type pinterp struct {
	c        *Ctx
	budget   int
	aborted  bool
	field    func(named *types.Named, idx int) (pval, bool) // value of a receiver field
	rankOf   func(input int64) (int64, bool)
	callSeed func(call *ssa.Call) (pval, bool) // value of a designated call (attribute getter)
	onReject func(fn *ssa.Function, iff *ssa.If, truth bool)
	onExt    func(fn *ssa.Function, call *ssa.Call, key string, operands []pval)
	decided  int // branches on a known condition that depends on the seed
}

type pframe struct {
	env    map[ssa.Value]pval
	tuples map[ssa.Value][]pval
	visits map[*ssa.BasicBlock]int
	fields map[int]pval // receiver fields stored on this path (by field index)
}

func (f *pframe) clone() *pframe {
	n := &pframe{env: make(map[ssa.Value]pval, len(f.env)), tuples: make(map[ssa.Value][]pval, len(f.tuples)), visits: make(map[*ssa.BasicBlock]int, len(f.visits)), fields: make(map[int]pval, len(f.fields))}
	for k, v := range f.fields {
		n.fields[k] = v
	}
	for k, v := range f.env {
		n.env[k] = v
	}
	for k, v := range f.tuples {
		n.tuples[k] = v
	}
	for k, v := range f.visits {
		n.visits[k] = v
	}
	return n
}

// run interprets fn with the given parameter values and returns the merged results (unknown where the
// returning paths disagree or a path was abandoned).
func (p *pinterp) run(fn *ssa.Function, args []pval, depth int) []pval {
	if len(fn.Blocks) == 0 {
		return nil
	}
	fr := &pframe{env: map[ssa.Value]pval{}, tuples: map[ssa.Value][]pval{}, visits: map[*ssa.BasicBlock]int{}, fields: map[int]pval{}}
	for i, prm := range fn.Params {
		if i < len(args) && args[i].k != pUnknown {
			fr.env[prm] = args[i]
		}
	}
	var results [][]pval
	incomplete := false
	p.walk(fn, fr, fn.Blocks[0], nil, depth, &results, &incomplete)
	n := fn.Signature.Results().Len()
	out := make([]pval, n)
	if incomplete || len(results) == 0 {
		return out
	}
	for i := 0; i < n; i++ {
		v := results[0][i]
		for _, r := range results[1:] {
			if r[i].k != v.k || r[i].i != v.i || r[i].b != v.b {
				v = pval{}
				break
			}
			v.dep = v.dep || r[i].dep
		}
		out[i] = v
	}
	return out
}

func (p *pinterp) val(fr *pframe, v ssa.Value) pval {
	if k, ok := v.(*ssa.Const); ok {
		if k.Value == nil {
			return pval{}
		}
		switch k.Value.Kind() {
		case constant.Int:
			if i, ok := constant.Int64Val(k.Value); ok {
				return pval{k: pInt, i: i}
			}
		case constant.Bool:
			return pval{k: pBool, b: constant.BoolVal(k.Value)}
		}
		return pval{}
	}
	return fr.env[v]
}

func (p *pinterp) walk(fn *ssa.Function, fr *pframe, blk, prev *ssa.BasicBlock, depth int, results *[][]pval, incomplete *bool) {
outer:
	for {
		if p.aborted {
			*incomplete = true
			return
		}
		fr.visits[blk]++
		if fr.visits[blk] > 3 {
			*incomplete = true
			return
		}
		for _, in := range blk.Instrs {
			p.budget--
			if p.budget < 0 {
				p.aborted = true
				*incomplete = true
				return
			}
			switch x := in.(type) {
			case *ssa.Phi:
				for i, pr := range blk.Preds {
					if pr == prev {
						if v := p.val(fr, x.Edges[i]); v.k != pUnknown {
							fr.env[x] = v
						} else {
							delete(fr.env, x)
						}
						break
					}
				}
			case *ssa.BinOp:
				a, b := p.val(fr, x.X), p.val(fr, x.Y)
				delete(fr.env, x)
				if a.k == pInt && b.k == pInt {
					dep := a.dep || b.dep
					switch x.Op {
					case token.ADD:
						fr.env[x] = pval{k: pInt, i: a.i + b.i, dep: dep}
					case token.SUB:
						fr.env[x] = pval{k: pInt, i: a.i - b.i, dep: dep}
					case token.MUL:
						fr.env[x] = pval{k: pInt, i: a.i * b.i, dep: dep}
					case token.QUO:
						if b.i != 0 {
							fr.env[x] = pval{k: pInt, i: a.i / b.i, dep: dep}
						}
					case token.REM:
						if b.i != 0 {
							fr.env[x] = pval{k: pInt, i: a.i % b.i, dep: dep}
						}
					default:
						if r, ok := cmpInt(x.Op, a.i, b.i); ok {
							fr.env[x] = pval{k: pBool, b: r, dep: dep}
						}
					}
				} else if a.k == pBool && b.k == pBool {
					dep := a.dep || b.dep
					switch x.Op {
					case token.EQL:
						fr.env[x] = pval{k: pBool, b: a.b == b.b, dep: dep}
					case token.NEQ:
						fr.env[x] = pval{k: pBool, b: a.b != b.b, dep: dep}
					case token.AND:
						fr.env[x] = pval{k: pBool, b: a.b && b.b, dep: dep}
					case token.OR:
						fr.env[x] = pval{k: pBool, b: a.b || b.b, dep: dep}
					}
				}
			case *ssa.UnOp:
				delete(fr.env, x)
				a := p.val(fr, x.X)
				switch x.Op {
				case token.SUB:
					if a.k == pInt {
						fr.env[x] = pval{k: pInt, i: -a.i, dep: a.dep}
					}
				case token.NOT:
					if a.k == pBool {
						fr.env[x] = pval{k: pBool, b: !a.b, dep: a.dep}
					}
				case token.MUL:
					switch ad := x.X.(type) {
					case *ssa.FieldAddr:
						if p.val(fr, ad.X).k == pRecv {
							if v, ok := fr.fields[ad.Field]; ok {
								if v.k != pUnknown {
									fr.env[x] = v
								}
							} else if nn, _ := structOfPtr(ad.X.Type()); nn != nil && p.field != nil {
								if v, ok := p.field(nn, ad.Field); ok {
									fr.env[x] = v
								}
							}
						}
					case *ssa.IndexAddr:
						if p.val(fr, ad.X).k == pInputs {
							if k, ok := constInt(ad.Index); ok {
								fr.env[x] = pval{k: pTensor, i: k}
							}
						}
					}
				}
			case *ssa.Store:
				if fa, ok := x.Addr.(*ssa.FieldAddr); ok && p.val(fr, fa.X).k == pRecv {
					fr.fields[fa.Field] = p.val(fr, x.Val)
				}
			case *ssa.Convert:
				p.pass(fr, x, x.X, true)
			case *ssa.ChangeType:
				p.pass(fr, x, x.X, false)
			case *ssa.ChangeInterface:
				p.pass(fr, x, x.X, false)
			case *ssa.MakeInterface:
				p.pass(fr, x, x.X, false)
			case *ssa.TypeAssert:
				if !x.CommaOk {
					p.pass(fr, x, x.X, false)
				}
			case *ssa.Slice:
				// shape[:] keeps the rank; any other re-slicing is unknown
				delete(fr.env, x)
				if x.Low == nil && x.High == nil && x.Max == nil {
					p.pass(fr, x, x.X, false)
				}
			case *ssa.Extract:
				delete(fr.env, x)
				if t, ok := fr.tuples[x.Tuple]; ok && x.Index < len(t) && t[x.Index].k != pUnknown {
					fr.env[x] = t[x.Index]
				}
			case *ssa.Call:
				p.call(fn, fr, x, depth)
			case *ssa.If:
				cv := p.val(fr, x.Cond)
				if cv.k == pBool {
					if cv.dep {
						p.decided++
						if p.onReject != nil && (p.c.edgeRejects(x, cv.b) || edgePanics(x, cv.b)) {
							p.onReject(fn, x, cv.b)
						}
					}
					nb := blk.Succs[1]
					if cv.b {
						nb = blk.Succs[0]
					}
					prev, blk = blk, nb
					continue outer
				}
				// unknown: fork
				other := fr.clone()
				p.walk(fn, other, blk.Succs[0], blk, depth, results, incomplete)
				prev, blk = blk, blk.Succs[1]
				continue outer
			case *ssa.Jump:
				prev, blk = blk, blk.Succs[0]
				continue outer
			case *ssa.Return:
				r := make([]pval, len(x.Results))
				for i, rv := range x.Results {
					r[i] = p.val(fr, rv)
				}
				*results = append(*results, r)
				return
			case *ssa.Panic:
				return
			default:
				if v, ok := in.(ssa.Value); ok {
					delete(fr.env, v)
				}
			}
		}
		return
	}
}

func edgePanics(iff *ssa.If, truth bool) bool {
	s := iff.Block().Succs[1]
	if truth {
		s = iff.Block().Succs[0]
	}
	for d := 0; d < 4 && len(s.Instrs) > 0; d++ {
		switch s.Instrs[len(s.Instrs)-1].(type) {
		case *ssa.Panic:
			return true
		case *ssa.Jump:
			s = s.Succs[0]
		default:
			return false
		}
	}
	return false
}

func (p *pinterp) pass(fr *pframe, dst, src ssa.Value, intOnly bool) {
	delete(fr.env, dst)
	v := p.val(fr, src)
	if v.k == pUnknown || (intOnly && v.k != pInt) {
		return
	}
	if intOnly {
		// integer conversions between the int kinds keep small values; anything else is unknown
		if b, ok := dst.Type().Underlying().(*types.Basic); !ok || b.Info()&types.IsInteger == 0 {
			return
		}
	}
	fr.env[dst] = v
}

func (p *pinterp) call(fn *ssa.Function, fr *pframe, x *ssa.Call, depth int) {
	delete(fr.env, x)
	delete(fr.tuples, x)
	cc := x.Common()
	if p.callSeed != nil {
		if v, ok := p.callSeed(x); ok {
			fr.env[x] = v
			return
		}
	}
	if b, ok := cc.Value.(*ssa.Builtin); ok {
		if b.Name() == "len" && len(cc.Args) == 1 {
			if a := p.val(fr, cc.Args[0]); a.k == pShape && p.rankOf != nil {
				if r, ok := p.rankOf(a.i); ok {
					fr.env[x] = pval{k: pInt, i: r}
				}
			}
		}
		return
	}
	if p.onExt != nil {
		key := ""
		var operands []ssa.Value
		if cc.IsInvoke() {
			if cc.Method.Pkg() != nil && cc.Method.Pkg().Path() == pkgTensor {
				key = pkgTensor + "#" + cc.Method.Name()
				operands = append(operands, cc.Value)
			}
		} else if sc := cc.StaticCallee(); sc != nil && fnPkgPath(sc) == pkgTensor {
			key = pkgTensor + "." + sc.Name()
			if sc.Signature.Recv() != nil {
				key = pkgTensor + "#" + sc.Name()
			}
		}
		if key != "" {
			operands = append(operands, cc.Args...)
			vals := make([]pval, len(operands))
			for i, o := range operands {
				vals[i] = p.val(fr, o)
			}
			p.onExt(fn, x, key, vals)
		}
	}
	name, recv := "", ssa.Value(nil)
	if cc.IsInvoke() {
		name, recv = cc.Method.Name(), cc.Value
		if cc.Method.Pkg() == nil || cc.Method.Pkg().Path() != pkgTensor {
			return
		}
	} else if sc := cc.StaticCallee(); sc != nil && fnPkgPath(sc) == pkgTensor && sc.Signature.Recv() != nil && len(cc.Args) > 0 {
		name, recv = sc.Name(), cc.Args[0]
	}
	if recv != nil {
		rv := p.val(fr, recv)
		switch {
		case rv.k == pTensor && name == "Shape":
			fr.env[x] = pval{k: pShape, i: rv.i}
		case rv.k == pTensor && name == "Dims", rv.k == pShape && name == "Dims":
			if p.rankOf != nil {
				if r, ok := p.rankOf(rv.i); ok {
					fr.env[x] = pval{k: pInt, i: r}
				}
			}
		case rv.k == pShape && name == "Clone":
			fr.env[x] = rv
		}
		return
	}
	sc := cc.StaticCallee()
	if sc == nil || !(isLibFn(sc) || isControlFn(sc)) || len(sc.Blocks) == 0 || depth >= 4 {
		return
	}
	args := make([]pval, len(cc.Args))
	any := false
	for i, a := range cc.Args {
		args[i] = p.val(fr, a)
		if args[i].k != pUnknown {
			any = true
		}
	}
	if !any {
		return
	}
	res := p.run(sc, args, depth+1)
	switch len(res) {
	case 0:
	case 1:
		if res[0].k != pUnknown {
			fr.env[x] = res[0]
		}
	default:
		fr.tuples[x] = res
	}
}
