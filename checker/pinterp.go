package main

// A partial path interpreter over SSA: integers, booleans, lists of integers, "the k-th input tensor", its
// shape, its data and the receiver are tracked exactly, everything else is unknown. A branch on a known
// condition is followed, a branch on an unknown condition forks. It is NOT execution of the library: no gonnx
// or gorgonia code runs, the walk is over the instruction graph with a handful of symbolic atoms bound to
// small integers (a finite table), and every value it cannot follow is simply unknown — an unknown never
// produces a report.
//
// Used by R9f (no valid axis is refused, the axis handed on is the requested one): for every rank r and every
// valid spelling of the axis / axes list the walk looks for a branch whose condition is fully determined by the
// table cell and whose taken edge always returns an error, and compares the values that reach gorgonia.

import (
	"fmt"
	"go/constant"
	"go/token"
	"go/types"
	"hash/fnv"
	"math/big"
	"sort"
	"strings"

	"golang.org/x/tools/go/ssa"
)

type pkind uint8

const (
	pUnknown pkind = iota
	pInt
	pBool
	pTensor    // the i-th element of Apply's inputs
	pShape     // Shape() of the i-th input
	pData      // Data() of the i-th input
	pRecv      // the operator receiver
	pInputs    // Apply's inputs slice
	pNil       // a nil interface / pointer / error
	pList      // a []int (or *[N]int) with known content: heap id i
	pElemAddr  // address of element j of list i
	pDimAddr   // address of extent j of the shape of input i
	pShapeOpt  // tensor.WithShape(shape of input i...)
	pBackOpt   // tensor.WithBacking(list j) in a walk with content
	pReuseOpt  // tensor.WithReuse(tensor with content): fields as pShaped
	pShaped    // a tensor built with the shape of input i (its data is unknown); j: heap id of its live shape
	pRevList   // sort.Reverse(sort.IntSlice(list i))
	pFunc      // a function value (fn)
	pSym       // an unknown that must be decided consistently along a path: receiver field i (b: negated)
	pStr       // a string constant (s)
	pObj       // pointer to a struct object on the heap (i: object id)
	pFieldAddr // address of field j of object i
	pStructVal // a struct value: a private copy on the heap (i: object id)
	pMap       // a map on the heap (i: map id)
	pIter      // a map iterator (i: iterator id)
	pAbs       // an abstract value the client names (i: id, s: label): an operator, a tensor, ...
	pHookFn    // a function value whose calls go to the client (i: id)
	pNonNil    // an interface / pointer / error known not to be nil (refined on the edge of a nil test)
	pPoison    // a value the walk once knew and lost (forgotten list, disagreeing callee paths): never branch on it
	pFloat     // a floating point constant (s: its exact value); only equality is known
	pTok       // element i of a designated input list, after the operations recorded in s (conversions, comparisons with constants)
)

type pval struct {
	k   pkind
	i   int64
	j   int64
	b   bool
	dep bool // derives from the seeded user value
	fn  *ssa.Function
	m   int64 // pShaped: heap id of the tensor's content as a list of source positions (0: not tracked)
	s   string
}

type pobj struct {
	fields map[int]pval
	typ    types.Type // the struct type, when the object was allocated with one
}

type pmap struct {
	keys, vals []pval
}

type piter struct {
	m   int64
	pos int
}

type pheap struct {
	lists      map[int64][]pval // nil entry: content unknown
	poison     map[int64]bool   // lists whose content was known and forgotten
	objs       map[int64]*pobj
	maps       map[int64]*pmap
	iters      map[int64]*piter
	alias      map[int64][]palias // re-sliced views: element j of the key is element j+delta of the other list
	cells      map[int64]bool     // one-element lists standing for a variable whose address is taken (captured by a closure)
	lazyT      map[int64]bool     // content lists of tensors with a pending (lazy) transposition: held in logical order, the raw order is not known
	spareCap   map[int64]bool     // lists that may have capacity beyond their length (results of append)
	appendedTo map[int64]int64    // list -> the result of an earlier append to it
	next       int64
}

type palias struct {
	other, delta int64
	idx          []int64 // when set: element k of this list is element idx[k] of the other list (-1: none); delta unused
}

// storeElem writes element j of a list and of every view that shares the element.
func (h *pheap) storeElem(id, j int64, v pval) {
	type at struct{ id, j int64 }
	seen := map[int64]bool{}
	work := []at{{id, j}}
	for len(work) > 0 {
		w := work[len(work)-1]
		work = work[:len(work)-1]
		if seen[w.id] {
			continue
		}
		seen[w.id] = true
		if l := h.lists[w.id]; l != nil && w.j >= 0 && w.j < int64(len(l)) {
			l[w.j] = v
		}
		for _, e := range h.alias[w.id] {
			if e.idx != nil {
				if w.j >= 0 && w.j < int64(len(e.idx)) && e.idx[w.j] >= 0 {
					work = append(work, at{e.other, e.idx[w.j]})
				}
				continue
			}
			work = append(work, at{e.other, w.j + e.delta})
		}
	}
}

// forget drops the content of a list and of every view of it.
func (h *pheap) forget(id int64) {
	seen := map[int64]bool{}
	work := []int64{id}
	for len(work) > 0 {
		w := work[len(work)-1]
		work = work[:len(work)-1]
		if seen[w] {
			continue
		}
		seen[w] = true
		if h.cells[w] {
			// a variable: its value is unknown from here on, which is not the same as a list that was known
			if l := h.lists[w]; len(l) == 1 {
				l[0] = pval{}
			}
			continue
		}
		if h.lists[w] != nil {
			h.poison[w] = true
		}
		h.lists[w] = nil
		for _, e := range h.alias[w] {
			work = append(work, e.other)
		}
	}
}

func newHeap() *pheap {
	return &pheap{lists: map[int64][]pval{}, poison: map[int64]bool{}, objs: map[int64]*pobj{}, maps: map[int64]*pmap{}, iters: map[int64]*piter{}}
}

func (h *pheap) newObj(typ ...types.Type) pval {
	h.next++
	if h.objs == nil {
		h.objs = map[int64]*pobj{}
	}
	o := &pobj{fields: map[int]pval{}}
	if len(typ) == 1 {
		o.typ = typ[0]
	}
	h.objs[h.next] = o
	return pval{k: pObj, i: h.next}
}

func (h *pheap) newMap() pval {
	h.next++
	if h.maps == nil {
		h.maps = map[int64]*pmap{}
	}
	h.maps[h.next] = &pmap{}
	return pval{k: pMap, i: h.next}
}

func sameKey(a, b pval) bool {
	if a.k != b.k {
		return false
	}
	switch a.k {
	case pStr:
		return a.s == b.s
	case pInt, pObj, pAbs:
		return a.i == b.i
	case pBool:
		return a.b == b.b
	}
	return false
}

func (m *pmap) get(k pval) (pval, bool) {
	for i, x := range m.keys {
		if sameKey(x, k) {
			return m.vals[i], true
		}
	}
	return pval{}, false
}

func (m *pmap) set(k, v pval) {
	for i, x := range m.keys {
		if sameKey(x, k) {
			m.vals[i] = v
			return
		}
	}
	m.keys = append(m.keys, k)
	m.vals = append(m.vals, v)
}

func (h *pheap) clone() *pheap {
	n := &pheap{lists: make(map[int64][]pval, len(h.lists)), poison: make(map[int64]bool, len(h.poison)), next: h.next,
		objs: make(map[int64]*pobj, len(h.objs)), maps: make(map[int64]*pmap, len(h.maps)), iters: make(map[int64]*piter, len(h.iters))}
	for k := range h.poison {
		n.poison[k] = true
	}
	if len(h.spareCap) > 0 {
		n.spareCap = make(map[int64]bool, len(h.spareCap))
		for k := range h.spareCap {
			n.spareCap[k] = true
		}
	}
	if len(h.appendedTo) > 0 {
		n.appendedTo = make(map[int64]int64, len(h.appendedTo))
		for k, v := range h.appendedTo {
			n.appendedTo[k] = v
		}
	}
	if len(h.lazyT) > 0 {
		n.lazyT = make(map[int64]bool, len(h.lazyT))
		for k := range h.lazyT {
			n.lazyT[k] = true
		}
	}
	if len(h.cells) > 0 {
		n.cells = make(map[int64]bool, len(h.cells))
		for k := range h.cells {
			n.cells[k] = true
		}
	}
	if len(h.alias) > 0 {
		n.alias = make(map[int64][]palias, len(h.alias))
		for k, v := range h.alias {
			n.alias[k] = v // edges are never modified in place
		}
	}
	for k, o := range h.objs {
		c := &pobj{fields: make(map[int]pval, len(o.fields)), typ: o.typ}
		for f, v := range o.fields {
			c.fields[f] = v
		}
		n.objs[k] = c
	}
	for k, m := range h.maps {
		n.maps[k] = &pmap{keys: append([]pval{}, m.keys...), vals: append([]pval{}, m.vals...)}
	}
	for k, it := range h.iters {
		n.iters[k] = &piter{m: it.m, pos: it.pos}
	}
	for k, v := range h.lists {
		if v != nil {
			n.lists[k] = append([]pval{}, v...)
		} else {
			n.lists[k] = nil
		}
	}
	return n
}

func (h *pheap) alloc(v []pval) pval {
	h.next++
	h.lists[h.next] = v
	return pval{k: pList, i: h.next}
}

type pinterp struct {
	c                *Ctx
	budget           int
	aborted          bool
	field            func(h *pheap, named *types.Named, idx int) (pval, bool) // value of a receiver field
	rankOf           func(input int64) (int64, bool)
	extentOf         func(input, axis int64) (int64, bool)
	present          func(input int64) bool            // optional input supplied? (nil func: unknown)
	inputList        func(input int64) ([]int64, bool) // integer content of a tensor-valued list input
	callSeed         func(call *ssa.Call) (pval, bool) // value of a designated call (attribute getter)
	onReject         func(fn *ssa.Function, iff *ssa.If, truth bool)
	onPanic          func(fn *ssa.Function, in ssa.Instruction, what string)
	contentDtype     pval       // when set: what Dtype() of a tensor with content answers
	strictIndex      bool       // every list of the walk is exact: a known index outside a known list is the panic it is at run time
	contentType      types.Type // when set: the Go type of the named elements of tensors with content (for assertions on At() results)
	onExt            func(fn *ssa.Function, call *ssa.Call, key string, operands []pval, h *pheap)
	onLib            func(fn *ssa.Function, call *ssa.Call, callee *ssa.Function, args []pval, h *pheap)
	onDyn            func(fn *ssa.Function, call *ssa.Call, args []pval, h *pheap) ([]pval, bool)     // call through a function value
	onReduce         func(fn *ssa.Function, call *ssa.Call, name string, shape []int64, axes []int64) // a gorgonia reduction on a tensor of known shape
	onRepeat         func(fn *ssa.Function, call *ssa.Call, shape []int64, axis, n int64)             // tensor.Repeat on a tensor of known shape
	onInvoke         func(fn *ssa.Function, call *ssa.Call, recv pval, method string, args []pval, h *pheap) ([]pval, bool)
	onStore          func(fn *ssa.Function, in ssa.Instruction, obj int64, field int) // a field of a heap object is written
	visited          map[*ssa.Function]bool
	decided          int // branches on a known condition that depends on the seed
	trace            bool
	globals          map[*ssa.Global]pval // package-level variables, filled by initGlobals
	listsAreSlicesOf types.Type           // when set: every list stands for a slice with this element type (type assertions)
	inInit           bool
	initFailed       []string
	initPkgs         map[string]bool // packages whose initialisers are walked (others are skipped)
	objects          bool            // model struct objects, maps and slices of arbitrary values (the interpreter tables of the Run plumbing)
	hdrCache         map[*ssa.Function]bool
	listReads        int
	nextFree         []pval                                                                                             // values of the free variables of the closure about to be run
	extModel         func(key string, call *ssa.Call, operands []pval, h *pheap) ([]pval, bool)                         // the client answers a gorgonia call
	content          bool                                                                                               // element expressions: tensors carry a list of element terms, gorgonia's arithmetic combines them
	cover            *pcover                                                                                            // when set: every block the walk enters is recorded (shared by the cells of one table)
	intercept        func(fn *ssa.Function, call *ssa.Call, callee *ssa.Function, args []pval, h *pheap) ([]pval, bool) // the client answers a library call instead of the walk
}

type pframe struct {
	env    map[ssa.Value]pval
	tuples map[ssa.Value][]pval
	visits map[*ssa.BasicBlock]int
	fields map[int]pval // receiver fields stored on this path (by field index)
	heap   *pheap
	dead   bool           // the path ended in a panic inside a call
	forked *bool          // set when any branch below this call was taken on an unknown condition
	syms   map[int64]bool // decisions taken on symbolic unknowns along this path
}

func (f *pframe) clone() *pframe {
	n := &pframe{env: make(map[ssa.Value]pval, len(f.env)), tuples: make(map[ssa.Value][]pval, len(f.tuples)), visits: make(map[*ssa.BasicBlock]int, len(f.visits)), fields: make(map[int]pval, len(f.fields)), heap: f.heap.clone(), forked: f.forked, syms: make(map[int64]bool, len(f.syms))}
	for k, v := range f.syms {
		n.syms[k] = v
	}
	for k, v := range f.fields {
		n.fields[k] = v
	}
	for k, v := range f.env {
		n.env[k] = v
	}
	for k, v := range f.tuples {
		n.tuples[k] = v
	}
	for k, v := range f.visits {
		n.visits[k] = v
	}
	return n
}

type presult struct {
	vals []pval
	heap *pheap
}

// run interprets fn with the given parameter values and returns the merged results (unknown where the
// returning paths disagree or a path was abandoned) and, when exactly one path ran to a return without any
// fork, the heap at that return (nil otherwise: the caller must forget what it knew about lists it passed).
func (p *pinterp) run(fn *ssa.Function, args []pval, depth int, heap *pheap) ([]pval, *pheap) {
	if len(fn.Blocks) == 0 {
		return nil, nil
	}
	if p.visited == nil {
		p.visited = map[*ssa.Function]bool{}
	}
	p.visited[fn] = true
	if heap == nil {
		heap = newHeap()
	}
	forked := false
	fr := &pframe{env: map[ssa.Value]pval{}, tuples: map[ssa.Value][]pval{}, visits: map[*ssa.BasicBlock]int{}, fields: map[int]pval{}, heap: heap, forked: &forked, syms: map[int64]bool{}}
	for i, prm := range fn.Params {
		if i < len(args) && args[i].k != pUnknown {
			fr.env[prm] = args[i]
		}
	}
	if len(fn.FreeVars) > 0 {
		free := p.nextFree
		for i, fv := range fn.FreeVars {
			if i < len(free) && free[i].k != pUnknown {
				fr.env[fv] = free[i]
			}
		}
	}
	p.nextFree = nil
	var results []presult
	incomplete := false
	p.walk(fn, fr, fn.Blocks[0], nil, depth, &results, &incomplete)
	n := fn.Signature.Results().Len()
	out := make([]pval, n)
	if incomplete || len(results) == 0 {
		for i := range out {
			out[i] = pval{k: pPoison}
		}
		return out, nil
	}
	// error paths (a definitely non-nil error result) are the caller's error branch; the values of the other
	// paths are what the caller continues with
	ei := -1
	if n > 0 && isErrorType(fn.Signature.Results().At(n-1).Type()) {
		ei = n - 1
	}
	var okPaths []presult
	nErr := 0
	for _, r := range results {
		if ei >= 0 && nonNilKind(r.vals[ei].k) {
			nErr++
		} else {
			okPaths = append(okPaths, r)
		}
	}
	if ei >= 0 && len(okPaths) > 0 && nErr > 0 {
		results = okPaths
		for i := 0; i < n; i++ {
			v := results[0].vals[i]
			for _, r := range results[1:] {
				if r.vals[i].k != v.k || r.vals[i].i != v.i || r.vals[i].b != v.b || r.vals[i].j != v.j || v.k == pList || v.k == pShaped {
					v = pval{k: pPoison}
					break
				}
			}
			out[i] = v
		}
		out[ei] = pval{} // nil on the paths above, non-nil on the error paths: the caller tests it
		if len(results) == 1 {
			return out, results[0].heap
		}
		return out, nil
	}
	for i := 0; i < n; i++ {
		v := results[0].vals[i]
		for _, r := range results[1:] {
			if r.vals[i].k != v.k || r.vals[i].i != v.i || r.vals[i].b != v.b || r.vals[i].j != v.j || r.vals[i].s != v.s || v.k == pList || v.k == pShaped {
				v = pval{k: pPoison}
				break
			}
			v.dep = v.dep || r.vals[i].dep
		}
		out[i] = v
	}
	if len(results) == 1 && !forked {
		return out, results[0].heap
	}
	return out, nil
}

func (p *pinterp) val(fr *pframe, v ssa.Value) pval {
	if k, ok := v.(*ssa.Const); ok {
		if k.Value == nil {
			switch k.Type().Underlying().(type) {
			case *types.Interface, *types.Pointer, *types.Slice, *types.Map, *types.Signature:
				return pval{k: pNil}
			}
			return pval{}
		}
		switch k.Value.Kind() {
		case constant.Int:
			if i, ok := constant.Int64Val(k.Value); ok {
				return pval{k: pInt, i: i}
			}
		case constant.Bool:
			return pval{k: pBool, b: constant.BoolVal(k.Value)}
		case constant.String:
			return pval{k: pStr, s: constant.StringVal(k.Value)}
		case constant.Float:
			return pval{k: pFloat, s: k.Value.ExactString()}
		}
		return pval{}
	}
	if f, ok := v.(*ssa.Function); ok {
		return pval{k: pFunc, fn: f}
	}
	return fr.env[v]
}

func (p *pinterp) panicAt(fn *ssa.Function, in ssa.Instruction, what string) {
	if p.onPanic != nil {
		p.onPanic(fn, in, what)
	}
}

func (p *pinterp) walk(fn *ssa.Function, fr *pframe, blk, prev *ssa.BasicBlock, depth int, results *[]presult, incomplete *bool) {
outer:
	for {
		if p.aborted {
			*incomplete = true
			return
		}
		if p.cover != nil {
			p.cover.mark(fn, blk)
		}
		fr.visits[blk]++
		if fr.visits[blk] > 64 {
			*incomplete = true
			return
		}
		var prevIn ssa.Instruction
		for _, in := range blk.Instrs {
			if p.trace && prevIn != nil {
				p.traceInstr(fn, fr, prevIn, depth)
			}
			prevIn = in
			p.budget--
			if p.budget < 0 {
				p.aborted = true
				*incomplete = true
				return
			}
			switch x := in.(type) {
			case *ssa.Phi:
				for i, pr := range blk.Preds {
					if pr == prev {
						if v := p.val(fr, x.Edges[i]); v.k != pUnknown {
							fr.env[x] = v
						} else {
							delete(fr.env, x)
						}
						break
					}
				}
			case *ssa.BinOp:
				a, b := p.val(fr, x.X), p.val(fr, x.Y)
				delete(fr.env, x)
				switch {
				case a.k == pPoison || b.k == pPoison:
					fr.env[x] = pval{k: pPoison}
				case (a.k == pTok && b.k == pInt) || (a.k == pInt && b.k == pTok):
					if a.k == pTok {
						fr.env[x] = pval{k: pTok, i: a.i, s: fmt.Sprintf("%s|x %s %d", a.s, x.Op, b.i)}
					} else {
						fr.env[x] = pval{k: pTok, i: b.i, s: fmt.Sprintf("%s|%d %s x", b.s, a.i, x.Op)}
					}
				case a.k == pInt && b.k == pInt:
					dep := a.dep || b.dep
					ty := ""
					if p.content {
						ty = x.Type().String() // the Go type of the result (for assertions on elements stored in tensors)
					}
					switch x.Op {
					case token.ADD:
						fr.env[x] = pval{k: pInt, i: a.i + b.i, dep: dep, s: ty}
					case token.SUB:
						fr.env[x] = pval{k: pInt, i: a.i - b.i, dep: dep, s: ty}
					case token.MUL:
						fr.env[x] = pval{k: pInt, i: a.i * b.i, dep: dep, s: ty}
					case token.QUO:
						if b.i != 0 {
							fr.env[x] = pval{k: pInt, i: a.i / b.i, dep: dep, s: ty}
						}
					case token.REM:
						if b.i != 0 {
							fr.env[x] = pval{k: pInt, i: a.i % b.i, dep: dep, s: ty}
						}
					case token.OR:
						fr.env[x] = pval{k: pInt, i: a.i | b.i, dep: dep, s: ty}
					case token.AND:
						fr.env[x] = pval{k: pInt, i: a.i & b.i, dep: dep, s: ty}
					case token.XOR:
						fr.env[x] = pval{k: pInt, i: a.i ^ b.i, dep: dep, s: ty}
					case token.AND_NOT:
						fr.env[x] = pval{k: pInt, i: a.i &^ b.i, dep: dep, s: ty}
					case token.SHL:
						if b.i >= 0 && b.i < 31 && a.i >= 0 && a.i < 1<<31 {
							fr.env[x] = pval{k: pInt, i: a.i << uint(b.i), dep: dep, s: ty}
						}
					case token.SHR:
						if b.i >= 0 && b.i < 63 && a.i >= 0 {
							fr.env[x] = pval{k: pInt, i: a.i >> uint(b.i), dep: dep, s: ty}
						}
					default:
						if r, ok := cmpInt(x.Op, a.i, b.i); ok {
							fr.env[x] = pval{k: pBool, b: r, dep: dep}
						}
					}
				case p.content && isFloatType(x.Type()) && (a.k == pStr || a.k == pFloat || a.k == pInt) && (b.k == pStr || b.k == pFloat || b.k == pInt) && (a.k == pStr || b.k == pStr) && (x.Op == token.ADD || x.Op == token.SUB || x.Op == token.MUL):
					// arithmetic of the code itself on named elements (a hand-written multiply-accumulate)
					nm := func(v pval) pval {
						if v.k == pInt {
							// a floating point constant with an integral value
							if v.i == 0 {
								return pval{k: pStr, s: "0"}
							}
							return pval{k: pStr, s: fmt.Sprintf("f%d", v.i)}
						}
						if v.k == pFloat {
							if v.s == "0" {
								return pval{k: pStr, s: "0"}
							}
							return pval{k: pStr, s: "f" + v.s}
						}
						return v
					}
					op := map[token.Token]string{token.ADD: "Add", token.SUB: "Sub", token.MUL: "Mul"}[x.Op]
					fr.env[x] = combineElems(op, nm(a), nm(b))
				case a.k == pStr && b.k == pStr && (x.Op == token.EQL || x.Op == token.NEQ):
					fr.env[x] = pval{k: pBool, b: (a.s == b.s) == (x.Op == token.EQL)}
				case (a.k == pFloat || b.k == pFloat) && (a.k == pFloat || a.k == pInt) && (b.k == pFloat || b.k == pInt) && smallIntFloat(floatText(a)) && smallIntFloat(floatText(b)) && (x.Op == token.ADD || x.Op == token.SUB || x.Op == token.MUL || x.Op == token.LSS || x.Op == token.LEQ || x.Op == token.GTR || x.Op == token.GEQ):
					// floating point constants with small integral values: sums, differences, products and orderings
					// are exact in every float type
					av, _ := new(big.Rat).SetString(floatText(a))
					bv, _ := new(big.Rat).SetString(floatText(b))
					r := new(big.Rat)
					switch x.Op {
					case token.ADD:
						r.Add(av, bv)
					case token.SUB:
						r.Sub(av, bv)
					case token.MUL:
						r.Mul(av, bv)
					default:
						cmp := av.Cmp(bv)
						res := map[token.Token]bool{token.LSS: cmp < 0, token.LEQ: cmp <= 0, token.GTR: cmp > 0, token.GEQ: cmp >= 0}[x.Op]
						fr.env[x] = pval{k: pBool, b: res, dep: a.dep || b.dep}
						r = nil
					}
					if r != nil && r.IsInt() && r.Num().IsInt64() && r.Num().Int64() > -(1<<20) && r.Num().Int64() < 1<<20 {
						fr.env[x] = pval{k: pFloat, s: r.Num().String(), dep: a.dep || b.dep}
					}
				case a.k == pFloat && b.k == pFloat && (x.Op == token.EQL || x.Op == token.NEQ):
					fr.env[x] = pval{k: pBool, b: (a.s == b.s) == (x.Op == token.EQL)}
				case (a.k == pObj || a.k == pAbs) && a.k == b.k && (x.Op == token.EQL || x.Op == token.NEQ):
					fr.env[x] = pval{k: pBool, b: (a.i == b.i) == (x.Op == token.EQL)}
				case a.k == pBool && b.k == pBool:
					dep := a.dep || b.dep
					switch x.Op {
					case token.EQL:
						fr.env[x] = pval{k: pBool, b: a.b == b.b, dep: dep}
					case token.NEQ:
						fr.env[x] = pval{k: pBool, b: a.b != b.b, dep: dep}
					case token.AND:
						fr.env[x] = pval{k: pBool, b: a.b && b.b, dep: dep}
					case token.OR:
						fr.env[x] = pval{k: pBool, b: a.b || b.b, dep: dep}
					}
				case (x.Op == token.EQL || x.Op == token.NEQ) && (a.k == pNil || b.k == pNil):
					// nil-ness of a value whose presence the table cell fixes
					o := a
					if a.k == pNil {
						o = b
					}
					switch o.k {
					case pNil:
						fr.env[x] = pval{k: pBool, b: x.Op == token.EQL}
					case pTensor, pList, pShape, pData, pRecv, pInputs, pShaped, pNonNil, pFunc, pObj, pMap, pAbs, pHookFn, pStr, pStructVal, pElemAddr, pFieldAddr:
						fr.env[x] = pval{k: pBool, b: x.Op == token.NEQ}
					}
				}
			case *ssa.UnOp:
				delete(fr.env, x)
				a := p.val(fr, x.X)
				switch x.Op {
				case token.SUB:
					if a.k == pInt {
						fr.env[x] = pval{k: pInt, i: -a.i, dep: a.dep}
					}
				case token.NOT:
					switch a.k {
					case pBool:
						fr.env[x] = pval{k: pBool, b: !a.b, dep: a.dep}
					case pSym:
						fr.env[x] = pval{k: pSym, i: a.i, b: !a.b}
					case pPoison:
						fr.env[x] = a
					}
				case token.MUL:
					switch a.k {
					case pPoison:
						fr.env[x] = a
						continue
					case pFieldAddr:
						if o := fr.heap.objs[a.i]; o != nil {
							if v, ok := o.fields[int(a.j)]; ok {
								if v.k != pUnknown {
									fr.env[x] = v
								}
							} else if z, ok := zeroOf(x.Type()); ok {
								fr.env[x] = z
							}
						}
						continue
					case pObj:
						// *p of a struct: a private copy
						if o := fr.heap.objs[a.i]; o != nil {
							if _, isStruct := x.Type().Underlying().(*types.Struct); isStruct {
								c := fr.heap.newObj(o.typ)
								for f, v := range o.fields {
									fr.heap.objs[c.i].fields[f] = v
								}
								fr.env[x] = pval{k: pStructVal, i: c.i}
							}
						}
						continue
					case pList:
						// *p of an array: the array value, a private copy of its elements
						if _, isArr := x.Type().Underlying().(*types.Array); isArr {
							if l := fr.heap.lists[a.i]; l != nil {
								fr.env[x] = fr.heap.alloc(append([]pval{}, l...))
							}
							continue
						}
					case pElemAddr:
						if l := fr.heap.lists[a.i]; l != nil && a.j >= 0 && a.j < int64(len(l)) && l[a.j].k != pUnknown {
							fr.env[x] = l[a.j]
							p.listReads++
						} else if l == nil && fr.heap.poison[a.i] {
							fr.env[x] = pval{k: pPoison}
						}
						continue
					case pDimAddr:
						if p.extentOf != nil {
							if e, ok := p.extentOf(a.i, a.j); ok {
								fr.env[x] = pval{k: pInt, i: e}
							}
						}
						continue
					}
					if g, isG := x.X.(*ssa.Global); isG && p.objects {
						if v, ok := p.globalValue(g); ok {
							fr.env[x] = v
						}
						continue
					}
					switch ad := x.X.(type) {
					case *ssa.FieldAddr:
						if p.val(fr, ad.X).k == pRecv {
							if v, ok := fr.fields[ad.Field]; ok {
								if v.k != pUnknown {
									fr.env[x] = v
								}
							} else if nn, _ := structOfPtr(ad.X.Type()); nn != nil {
								got := false
								if p.field != nil {
									if v, ok := p.field(fr.heap, nn, ad.Field); ok {
										fr.env[x] = v
										fr.fields[ad.Field] = v
										got = true
									}
								}
								if !got {
									if bt, ok := x.Type().Underlying().(*types.Basic); ok && bt.Kind() == types.Bool {
										// the same attribute is read the same way every time along one path
										fr.env[x] = pval{k: pSym, i: int64(ad.Field)}
									}
								}
							}
						}
					case *ssa.IndexAddr:
						if p.val(fr, ad.X).k == pInputs {
							if k, ok := constInt(ad.Index); ok {
								if p.present != nil && !p.present(k) {
									fr.env[x] = pval{k: pNil}
								} else {
									fr.env[x] = pval{k: pTensor, i: k}
								}
							}
						}
					}
				}
			case *ssa.Alloc:
				delete(fr.env, x)
				fr.env[x] = pval{k: pNonNil}
				if pt, ok := x.Type().Underlying().(*types.Pointer); ok {
					switch et := pt.Elem().Underlying().(type) {
					case *types.Array:
						if et.Len() <= 64 {
							l := make([]pval, et.Len())
							if z, ok := zeroOf(et.Elem()); ok {
								for i := range l {
									l[i] = z
								}
							}
							fr.env[x] = fr.heap.alloc(l)
						}
					case *types.Struct:
						fr.env[x] = fr.heap.newObj(pt.Elem())
					default:
						// a variable whose address is taken (captured by a closure, passed to a helper)
						z, _ := zeroOf(pt.Elem())
						id := fr.heap.alloc([]pval{z})
						if fr.heap.cells == nil {
							fr.heap.cells = map[int64]bool{}
						}
						fr.heap.cells[id.i] = true
						fr.env[x] = pval{k: pElemAddr, i: id.i, j: 0}
					}
				}
			case *ssa.MakeClosure:
				delete(fr.env, x)
				if f, ok := x.Fn.(*ssa.Function); ok {
					b := make([]pval, len(x.Bindings))
					for i, bv := range x.Bindings {
						b[i] = p.val(fr, bv)
					}
					fr.env[x] = pval{k: pFunc, fn: f, i: fr.heap.alloc(b).i}
				}
			case *ssa.MakeSlice:
				delete(fr.env, x)
				if st, ok := x.Type().Underlying().(*types.Slice); ok {
					if n := p.val(fr, x.Len); n.k == pInt && n.i >= 0 && n.i <= 64 {
						l := make([]pval, n.i)
						if z, ok := zeroOf(st.Elem()); ok {
							for i := range l {
								l[i] = z
							}
						}
						isBool := false
						if bt, ok := st.Elem().Underlying().(*types.Basic); ok && bt.Kind() == types.Bool {
							isBool = true
						}
						if isIntType(st.Elem()) || isBool || p.objects {
							fr.env[x] = fr.heap.alloc(l)
						}
					}
				}
			case *ssa.IndexAddr:
				delete(fr.env, x)
				base, idx := p.val(fr, x.X), p.val(fr, x.Index)
				if base.k == pPoison || idx.k == pPoison || (base.k == pList && fr.heap.lists[base.i] == nil && fr.heap.poison[base.i]) {
					fr.env[x] = pval{k: pPoison}
					break
				}
				switch base.k {
				case pList:
					l := fr.heap.lists[base.i]
					if l == nil || idx.k != pInt {
						break
					}
					if idx.i < 0 || idx.i >= int64(len(l)) {
						if idx.dep || p.strictIndex {
							p.panicAt(fn, x, fmt.Sprintf("index out of range [%d] with length %d", idx.i, len(l)))
						}
						return
					}
					if pt, ok := x.Type().Underlying().(*types.Pointer); ok && p.objects {
						if _, isStruct := pt.Elem().Underlying().(*types.Struct); isStruct && libStruct(pt.Elem()) {
							// the element is a struct value: it lives in an object of its own
							if l[idx.i].k != pStructVal {
								o := fr.heap.newObj(pt.Elem())
								l[idx.i] = pval{k: pStructVal, i: o.i}
							}
							fr.env[x] = pval{k: pObj, i: l[idx.i].i}
							break
						}
					}
					fr.env[x] = pval{k: pElemAddr, i: base.i, j: idx.i}
				case pShape:
					if idx.k != pInt || p.rankOf == nil {
						break
					}
					if r, ok := p.rankOf(base.i); ok {
						if idx.i < 0 || idx.i >= r {
							if idx.dep {
								p.panicAt(fn, x, "index out of range")
							}
							return
						}
						fr.env[x] = pval{k: pDimAddr, i: base.i, j: idx.i}
					}
				}
			case *ssa.FieldAddr:
				delete(fr.env, x)
				switch b := p.val(fr, x.X); b.k {
				case pShaped:
					fr.env[x] = b // &dense.AP and the like: still "that tensor"
				case pAbs:
					if b.s == "tensor" {
						fr.env[x] = b // an abstract tensor the client named: its embedded parts are still that tensor
					}
				case pObj:
					fr.env[x] = pval{k: pFieldAddr, i: b.i, j: int64(x.Field)}
				case pNil:
					if p.objects {
						p.panicAt(fn, x, "nil pointer dereference")
						return
					}
				}
			case *ssa.Index:
				delete(fr.env, x)
				if _, isArr := x.X.Type().Underlying().(*types.Array); isArr {
					if av, iv := p.val(fr, x.X), p.val(fr, x.Index); av.k == pList && iv.k == pInt {
						if l := fr.heap.lists[av.i]; l != nil && iv.i >= 0 && iv.i < int64(len(l)) && l[iv.i].k != pUnknown {
							fr.env[x] = l[iv.i]
						}
					}
				}
			case *ssa.Store:
				if g, isG := x.Addr.(*ssa.Global); isG && p.objects && p.inInit {
					if p.globals == nil {
						p.globals = map[*ssa.Global]pval{}
					}
					p.globals[g] = p.val(fr, x.Val)
					continue
				}
				switch ad := p.val(fr, x.Addr); ad.k {
				case pFieldAddr:
					if o := fr.heap.objs[ad.i]; o != nil {
						o.fields[int(ad.j)] = p.val(fr, x.Val)
						if p.onStore != nil {
							p.onStore(fn, x, ad.i, int(ad.j))
						}
					}
				case pObj:
					if v := p.val(fr, x.Val); v.k == pStructVal {
						if src, dst := fr.heap.objs[v.i], fr.heap.objs[ad.i]; src != nil && dst != nil {
							dst.fields = make(map[int]pval, len(src.fields))
							for f, fv := range src.fields {
								dst.fields[f] = fv
							}
						}
					}
				case pElemAddr:
					if l := fr.heap.lists[ad.i]; l != nil && ad.j < int64(len(l)) {
						fr.heap.storeElem(ad.i, ad.j, p.val(fr, x.Val))
					}
				case pList:
					// *p = array value: the elements are copied
					if _, isArr := x.Val.Type().Underlying().(*types.Array); isArr {
						if v := p.val(fr, x.Val); v.k == pList && fr.heap.lists[v.i] != nil && fr.heap.lists[ad.i] != nil && len(fr.heap.lists[v.i]) == len(fr.heap.lists[ad.i]) {
							copy(fr.heap.lists[ad.i], fr.heap.lists[v.i])
						} else {
							for i := range fr.heap.lists[ad.i] {
								fr.heap.lists[ad.i][i] = pval{}
							}
						}
					}
				default:
					if fa, ok := x.Addr.(*ssa.FieldAddr); ok && p.val(fr, fa.X).k == pRecv {
						fr.fields[fa.Field] = p.val(fr, x.Val)
					}
				}
			case *ssa.MakeMap:
				delete(fr.env, x)
				if p.objects {
					fr.env[x] = fr.heap.newMap()
				}
			case *ssa.MapUpdate:
				if m := p.val(fr, x.Map); m.k == pMap {
					if mm := fr.heap.maps[m.i]; mm != nil {
						if k := p.val(fr, x.Key); k.k == pStr || k.k == pInt || k.k == pAbs {
							mm.set(k, p.val(fr, x.Value))
						} else {
							delete(fr.heap.maps, m.i) // an unknown key: the content is no longer known
						}
					}
				}
			case *ssa.Lookup:
				delete(fr.env, x)
				delete(fr.tuples, x)
				if m := p.val(fr, x.X); m.k == pMap {
					mm := fr.heap.maps[m.i]
					k := p.val(fr, x.Index)
					if mm == nil || (k.k != pStr && k.k != pInt && k.k != pAbs) {
						break
					}
					v, found := mm.get(k)
					if !found {
						v, _ = zeroOf(x.X.Type().Underlying().(*types.Map).Elem())
					}
					if x.CommaOk {
						fr.tuples[x] = []pval{v, {k: pBool, b: found}}
					} else if v.k != pUnknown {
						fr.env[x] = v
					}
				} else if m.k == pNil {
					// a nil map reads as empty
					if mt, ok := x.X.Type().Underlying().(*types.Map); ok {
						v, _ := zeroOf(mt.Elem())
						if x.CommaOk {
							fr.tuples[x] = []pval{v, {k: pBool, b: false}}
						} else if v.k != pUnknown {
							fr.env[x] = v
						}
					}
				}
			case *ssa.Range:
				delete(fr.env, x)
				switch m := p.val(fr, x.X); m.k {
				case pMap:
					if fr.heap.maps[m.i] != nil {
						fr.heap.next++
						fr.heap.iters[fr.heap.next] = &piter{m: m.i}
						fr.env[x] = pval{k: pIter, i: fr.heap.next}
					}
				case pNil:
					fr.heap.next++
					fr.heap.iters[fr.heap.next] = &piter{m: -1}
					fr.env[x] = pval{k: pIter, i: fr.heap.next}
				}
			case *ssa.Next:
				delete(fr.env, x)
				delete(fr.tuples, x)
				if it := p.val(fr, x.Iter); it.k == pIter {
					st := fr.heap.iters[it.i]
					if st == nil {
						break
					}
					mm := fr.heap.maps[st.m]
					if st.m == -1 || (mm != nil && st.pos >= len(mm.keys)) {
						fr.tuples[x] = []pval{{k: pBool, b: false}, {}, {}}
					} else if mm != nil {
						fr.tuples[x] = []pval{{k: pBool, b: true}, mm.keys[st.pos], mm.vals[st.pos]}
						st.pos++
					}
				}
			case *ssa.Field:
				delete(fr.env, x)
				if sv := p.val(fr, x.X); sv.k == pStructVal {
					if o := fr.heap.objs[sv.i]; o != nil {
						if v, ok := o.fields[x.Field]; ok {
							if v.k != pUnknown {
								fr.env[x] = v
							}
						} else if z, ok := zeroOf(x.Type()); ok {
							fr.env[x] = z
						}
					}
				}
			case *ssa.Convert:
				p.pass(fr, x, x.X, true)
			case *ssa.ChangeType:
				p.pass(fr, x, x.X, false)
			case *ssa.ChangeInterface:
				p.pass(fr, x, x.X, false)
			case *ssa.MakeInterface:
				p.pass(fr, x, x.X, false)
			case *ssa.TypeAssert:
				if !x.CommaOk {
					if v := p.val(fr, x.X); v.k == pList && p.listsAreSlicesOf != nil {
						// a list standing for a slice of a known element type, asserted to another type: the panic of an
						// unchecked assertion
						elemT := p.listsAreSlicesOf.String()
						if l := fr.heap.lists[v.i]; len(l) > 0 && l[0].k == pInt && l[0].s != "" {
							elemT = l[0].s
						}
						if st, ok := x.AssertedType.Underlying().(*types.Slice); !ok || st.Elem().String() != elemT {
							if _, isIface := x.AssertedType.Underlying().(*types.Interface); !isIface {
								p.panicAt(fn, x, "interface conversion: the value is a []"+p.listsAreSlicesOf.String()+", not "+x.AssertedType.String())
								return
							}
						}
					}
					if v := p.val(fr, x.X); (v.k == pStr || v.k == pTok) && p.contentType != nil {
						if _, isBasic := x.AssertedType.Underlying().(*types.Basic); isBasic && !types.Identical(x.AssertedType, p.contentType) {
							p.panicAt(fn, x, "interface conversion: the element is a "+p.contentType.String()+", not "+x.AssertedType.String())
							return
						}
					}
					p.pass(fr, x, x.X, false)
				} else {
					delete(fr.env, x)
					delete(fr.tuples, x)
					// a tensor asserted to the tensor interface (or to *Dense, which every gonnx tensor is)
					v := p.val(fr, x.X)
					if v.k == pShaped || v.k == pTensor || (v.k == pAbs && v.s == "tensor") {
						if isTensorish(x.AssertedType) {
							fr.tuples[x] = []pval{v, {k: pBool, b: true}}
						}
					}
					if v.k == pObj {
						if o := fr.heap.objs[v.i]; o != nil && o.typ != nil {
							if _, isIface := x.AssertedType.Underlying().(*types.Interface); !isIface {
								okT := types.Identical(types.NewPointer(o.typ), x.AssertedType)
								if okT {
									fr.tuples[x] = []pval{v, {k: pBool, b: true}}
								} else {
									fr.tuples[x] = []pval{{k: pNil}, {k: pBool, b: false}}
								}
							}
						}
					}
					if v.k == pNil {
						z, _ := zeroOf(x.AssertedType)
						fr.tuples[x] = []pval{z, {k: pBool, b: false}}
					}
					if v.k == pInt && p.content {
						// an integer element of a tensor with content (index data): its Go type is the one it was last
						// converted to, or the element type of the raw backings of this walk
						et := v.s
						if et == "" && p.listsAreSlicesOf != nil {
							et = p.listsAreSlicesOf.String()
						}
						if _, isBasic := x.AssertedType.Underlying().(*types.Basic); isBasic && et != "" {
							if x.AssertedType.String() == et {
								fr.tuples[x] = []pval{v, {k: pBool, b: true}}
							} else {
								z, _ := zeroOf(x.AssertedType)
								fr.tuples[x] = []pval{z, {k: pBool, b: false}}
							}
						}
					}
					if v.k == pBool && p.content && p.contentType != nil {
						// a truth value stored in a tensor with content
						if _, isBasic := x.AssertedType.Underlying().(*types.Basic); isBasic {
							if types.Identical(x.AssertedType, p.contentType) {
								fr.tuples[x] = []pval{v, {k: pBool, b: true}}
							} else {
								z, _ := zeroOf(x.AssertedType)
								fr.tuples[x] = []pval{z, {k: pBool, b: false}}
							}
						}
					}
					if (v.k == pStr || v.k == pTok) && p.contentType != nil {
						// a named element of a tensor with content, asserted to a basic type
						if _, isBasic := x.AssertedType.Underlying().(*types.Basic); isBasic {
							if types.Identical(x.AssertedType, p.contentType) {
								fr.tuples[x] = []pval{v, {k: pBool, b: true}}
							} else {
								z, _ := zeroOf(x.AssertedType)
								fr.tuples[x] = []pval{z, {k: pBool, b: false}}
							}
						}
					}
					if v.k == pList && p.listsAreSlicesOf != nil {
						// a list standing for a slice of a known element type (the elements' own type tags, when they
						// carry one, say more than the walk's default)
						elemT := p.listsAreSlicesOf.String()
						if l := fr.heap.lists[v.i]; len(l) > 0 && l[0].k == pInt && l[0].s != "" {
							elemT = l[0].s
						}
						if st, ok := x.AssertedType.Underlying().(*types.Slice); ok && st.Elem().String() == elemT {
							fr.tuples[x] = []pval{v, {k: pBool, b: true}}
						} else {
							z, _ := zeroOf(x.AssertedType)
							fr.tuples[x] = []pval{z, {k: pBool, b: false}}
						}
					}
				}
			case *ssa.Slice:
				delete(fr.env, x)
				base := p.val(fr, x.X)
				if x.Low == nil && x.High == nil && x.Max == nil {
					if base.k != pUnknown {
						fr.env[x] = base
					}
					break
				}
				if (base.k == pList || base.k == pShape) && x.Max == nil {
					var l []pval
					if base.k == pList {
						l = fr.heap.lists[base.i]
					} else if sl, ok := p.shapeList(base.i); ok {
						l = sl
						if l == nil {
							l = []pval{}
						}
					}
					if l == nil {
						break
					}
					lo, hi := int64(0), int64(len(l))
					okb := true
					if x.Low != nil {
						if v := p.val(fr, x.Low); v.k == pInt {
							lo = v.i
						} else {
							okb = false
						}
					}
					if x.High != nil {
						if v := p.val(fr, x.High); v.k == pInt {
							hi = v.i
						} else {
							okb = false
						}
					}
					if okb && lo >= 0 && lo <= hi && hi <= int64(len(l)) {
						// a view: a list of its own whose elements are tied to the base's (stores through either
						// are seen through the other)
						nv := fr.heap.alloc(append([]pval{}, l[lo:hi]...))
						if base.k == pList {
							if fr.heap.alias == nil {
								fr.heap.alias = map[int64][]palias{}
							}
							fr.heap.alias[nv.i] = append(append([]palias{}, fr.heap.alias[nv.i]...), palias{other: base.i, delta: lo})
							fr.heap.alias[base.i] = append(append([]palias{}, fr.heap.alias[base.i]...), palias{other: nv.i, delta: -lo})
						}
						fr.env[x] = nv
					}
				}
			case *ssa.Extract:
				delete(fr.env, x)
				if t, ok := fr.tuples[x.Tuple]; ok && x.Index < len(t) && t[x.Index].k != pUnknown {
					fr.env[x] = t[x.Index]
				}
			case *ssa.Call:
				p.call(fn, fr, x, depth)
				if fr.dead {
					return
				}
			case *ssa.If:
				cv := p.val(fr, x.Cond)
				if cv.k == pBool {
					// every known value derives from the table cell (or is a constant): a decided branch that
					// always ends in an error refuses the cell, whether or not the condition mentions the axis
					if _, isConst := x.Cond.(*ssa.Const); !isConst {
						p.decided++
						if p.onReject != nil && (p.c.edgeRejects(x, cv.b) || edgePanics(x, cv.b)) {
							p.onReject(fn, x, cv.b)
						}
					}
					nb := blk.Succs[1]
					if cv.b {
						nb = blk.Succs[0]
					}
					prev, blk = blk, nb
					continue outer
				}
				if cv.k == pPoison {
					*incomplete = true
					return
				}
				if cv.k == pSym {
					if want, ok := fr.syms[cv.i]; ok {
						take := want != cv.b // the symbol's value, negated when the condition is its negation
						nb := blk.Succs[1]
						if take {
							nb = blk.Succs[0]
						}
						prev, blk = blk, nb
						continue outer
					}
					*fr.forked = true
					other := fr.clone()
					other.syms[cv.i] = !cv.b // condition true on this edge
					fr.syms[cv.i] = cv.b
					p.walk(fn, other, blk.Succs[0], blk, depth, results, incomplete)
					prev, blk = blk, blk.Succs[1]
					continue outer
				}
				// unknown: fork; a loop whose condition is unknown is unrolled twice at most
				*fr.forked = true
				// a nil test of an unknown value tells both edges what the value is
				var tested ssa.Value
				nonNilOnTrue := false
				if bo, ok := x.Cond.(*ssa.BinOp); ok && (bo.Op == token.EQL || bo.Op == token.NEQ) {
					if isNilConst(bo.Y) && p.val(fr, bo.X).k == pUnknown {
						tested, nonNilOnTrue = bo.X, bo.Op == token.NEQ
					} else if isNilConst(bo.X) && p.val(fr, bo.Y).k == pUnknown {
						tested, nonNilOnTrue = bo.Y, bo.Op == token.NEQ
					}
				}
				refine := func(f *pframe, truth bool) {
					if tested == nil {
						return
					}
					if truth == nonNilOnTrue {
						f.env[tested] = pval{k: pNonNil}
					} else {
						f.env[tested] = pval{k: pNil}
					}
				}
				if fr.visits[blk.Succs[0]] < 2 {
					other := fr.clone()
					refine(other, true)
					p.walk(fn, other, blk.Succs[0], blk, depth, results, incomplete)
				} else {
					*incomplete = true
				}
				refine(fr, false)
				if fr.visits[blk.Succs[1]] >= 2 {
					*incomplete = true
					return
				}
				prev, blk = blk, blk.Succs[1]
				continue outer
			case *ssa.Jump:
				prev, blk = blk, blk.Succs[0]
				continue outer
			case *ssa.Return:
				r := make([]pval, len(x.Results))
				for i, rv := range x.Results {
					r[i] = p.val(fr, rv)
				}
				*results = append(*results, presult{r, fr.heap})
				return
			case *ssa.Panic:
				return
			default:
				if v, ok := in.(ssa.Value); ok {
					delete(fr.env, v)
				}
			}
		}
		return
	}
}

func edgePanics(iff *ssa.If, truth bool) bool {
	s := iff.Block().Succs[1]
	if truth {
		s = iff.Block().Succs[0]
	}
	for d := 0; d < 4 && len(s.Instrs) > 0; d++ {
		switch s.Instrs[len(s.Instrs)-1].(type) {
		case *ssa.Panic:
			return true
		case *ssa.Jump:
			s = s.Succs[0]
		default:
			return false
		}
	}
	return false
}

func (p *pinterp) pass(fr *pframe, dst, src ssa.Value, intOnly bool) {
	delete(fr.env, dst)
	v := p.val(fr, src)
	if v.k == pPoison {
		fr.env[dst] = v
		return
	}
	if (v.k == pStr || v.k == pFloat) && intOnly {
		// string([]byte) of a value the client gave as a string; float32(float64 constant)
		fr.env[dst] = v
		return
	}
	if v.k == pTok && intOnly {
		fr.env[dst] = pval{k: pTok, i: v.i, s: v.s + "|conv:" + dst.Type().String()}
		return
	}
	if v.k == pUnknown || (intOnly && v.k != pInt) {
		return
	}
	if intOnly {
		// integer conversions between the int kinds keep small values; anything else is unknown
		if b, ok := dst.Type().Underlying().(*types.Basic); !ok || b.Info()&types.IsInteger == 0 {
			return
		}
		if p.content && v.k == pInt {
			v.s = dst.Type().String() // the Go type an element was converted to (for assertions on At() results)
		}
	}
	fr.env[dst] = v
}

// havoc forgets what a call that could not be followed may have changed: the content of lists it received and,
// when something behind the callee writes tensor headers (Reshape, T, Transpose, SetShape), the shape of tensors.
func (p *pinterp) havoc(fr *pframe, args []pval, callee ...*ssa.Function) {
	mayReshape := true
	if len(callee) == 1 && callee[0] != nil {
		mayReshape = p.writesHeaders(callee[0])
	}
	for _, a := range args {
		if a.k == pList || a.k == pElemAddr || a.k == pRevList {
			fr.heap.forget(a.i)
		}
		if a.k == pShaped && mayReshape {
			if fr.heap.lists[a.j] != nil {
				fr.heap.poison[a.j] = true
			}
			fr.heap.lists[a.j] = nil
		}
	}
}

func (p *pinterp) call(fn *ssa.Function, fr *pframe, x *ssa.Call, depth int) {
	delete(fr.env, x)
	delete(fr.tuples, x)
	cc := x.Common()
	if cc.IsInvoke() && p.content {
		if it := p.val(fr, cc.Value); it.k == pObj {
			if o := fr.heap.objs[it.i]; o != nil && o.fields[2].k == pStr && o.fields[2].s == "iterator" {
				sh := fr.heap.lists[o.fields[0].i]
				total := int64(1)
				for _, e := range sh {
					total *= e.i
				}
				pos := o.fields[1].i
				switch cc.Method.Name() {
				case "Reset":
					o.fields[1] = pval{k: pInt, i: 0}
				case "Done":
					fr.env[x] = pval{k: pBool, b: pos >= total}
				case "Coord":
					co := make([]pval, len(sh))
					rem := pos
					for d := len(sh) - 1; d >= 0; d-- {
						if sh[d].i > 0 {
							co[d] = pval{k: pInt, i: rem % sh[d].i}
							rem /= sh[d].i
						}
					}
					fr.env[x] = fr.heap.alloc(co)
				case "Next":
					o.fields[1] = pval{k: pInt, i: pos + 1}
					fr.tuples[x] = []pval{{k: pInt, i: pos + 1}, {k: pNil}}
				case "Start":
					o.fields[1] = pval{k: pInt, i: 0}
					fr.tuples[x] = []pval{{k: pInt, i: 0}, {k: pNil}}
				}
				return
			}
		}
	}
	if cc.IsInvoke() && p.objects && p.val(fr, cc.Value).k == pNil {
		p.panicAt(fn, x, "method "+cc.Method.Name()+" called on a nil interface value")
		fr.dead = true
		return
	}
	if p.callSeed != nil {
		if v, ok := p.callSeed(x); ok {
			fr.env[x] = v
			return
		}
	}
	if b, ok := cc.Value.(*ssa.Builtin); ok {
		switch b.Name() {
		case "len", "cap":
			if len(cc.Args) == 1 {
				switch a := p.val(fr, cc.Args[0]); a.k {
				case pShape:
					if p.rankOf != nil {
						if r, ok := p.rankOf(a.i); ok {
							fr.env[x] = pval{k: pInt, i: r}
						}
					}
				case pPoison:
					fr.env[x] = a
				case pList:
					if l := fr.heap.lists[a.i]; l != nil && b.Name() == "len" {
						fr.env[x] = pval{k: pInt, i: int64(len(l))}
					} else if l == nil && fr.heap.poison[a.i] {
						fr.env[x] = pval{k: pPoison}
					}
				case pMap:
					if mm := fr.heap.maps[a.i]; mm != nil && b.Name() == "len" {
						fr.env[x] = pval{k: pInt, i: int64(len(mm.keys))}
					}
				case pNil:
					if p.objects {
						fr.env[x] = pval{k: pInt, i: 0}
					}
				case pInputs:
				}
			}
		case "append":
			if len(cc.Args) == 2 {
				a, b2 := p.val(fr, cc.Args[0]), p.val(fr, cc.Args[1])
				var la, lb []pval
				okA, okB := false, false
				switch a.k {
				case pList:
					la, okA = fr.heap.lists[a.i], fr.heap.lists[a.i] != nil
				case pNil:
					okA = true
				case pShape:
					la, okA = p.shapeList(a.i)
				}
				switch b2.k {
				case pList:
					lb, okB = fr.heap.lists[b2.i], fr.heap.lists[b2.i] != nil
				case pNil:
					okB = true
				case pShape:
					lb, okB = p.shapeList(b2.i)
				}
				if okA && okB && a.k == pList && len(lb) > 0 {
					// append to a slice that is a proper prefix view of a longer list writes into that list (Go
					// appends in place while the capacity lasts): s = append(s[:k], v) overwrites s[k]
					type reach struct{ id, d int64 }
					seenL := map[int64]bool{a.i: true}
					work := []reach{{a.i, 0}}
					var host *reach
					ambiguous := false
					for len(work) > 0 {
						w := work[len(work)-1]
						work = work[:len(work)-1]
						for _, e := range fr.heap.alias[w.id] {
							if e.idx != nil || seenL[e.other] {
								continue
							}
							seenL[e.other] = true
							r := reach{e.other, w.d + e.delta}
							work = append(work, r)
							// the list that shows the most storage behind the start of a
							if ol := fr.heap.lists[r.id]; ol != nil && r.d >= 0 {
								if host == nil || int64(len(ol))-r.d > int64(len(fr.heap.lists[host.id]))-host.d {
									hr := r
									host = &hr
								}
							}
						}
					}
					if host != nil {
						visible := int64(len(fr.heap.lists[host.id])) - host.d
						switch {
						case int64(len(la)+len(lb)) <= visible:
						case int64(len(la)) < visible:
							ambiguous = true // part of the visible list is overwritten only if the capacity lasts
							host = nil
						default:
							host = nil
						}
					}
					if ambiguous {
						fr.heap.forget(a.i)
						break
					}
					if host != nil {
						vals := append([]pval{}, lb...)
						end := host.d + int64(len(la))
						for i, v := range vals {
							fr.heap.storeElem(host.id, end+int64(i), v)
						}
						nv := fr.heap.alloc(append(append([]pval{}, la...), vals...))
						if fr.heap.alias == nil {
							fr.heap.alias = map[int64][]palias{}
						}
						fr.heap.alias[nv.i] = append(append([]palias{}, fr.heap.alias[nv.i]...), palias{other: host.id, delta: host.d})
						fr.heap.alias[host.id] = append(append([]palias{}, fr.heap.alias[host.id]...), palias{other: nv.i, delta: -host.d})
						fr.env[x] = nv
						break
					}
				}
				if okA && okB {
					// Go's append writes into the spare capacity of its first argument when there is some: two
					// appends to the same slice that may have spare capacity (itself the result of an append) can
					// share storage - the second overwrites what the first appended. Not modelled: the contents of
					// both results are given up.
					if a.k == pList && len(lb) > 0 && fr.heap.spareCap[a.i] {
						if prev, again := fr.heap.appendedTo[a.i]; again {
							fr.heap.forget(prev)
							break
						}
					}
					nl := fr.heap.alloc(append(append([]pval{}, la...), lb...))
					fr.env[x] = nl
					if fr.heap.spareCap == nil {
						fr.heap.spareCap = map[int64]bool{}
					}
					if fr.heap.appendedTo == nil {
						fr.heap.appendedTo = map[int64]int64{}
					}
					fr.heap.spareCap[nl.i] = true
					if a.k == pList && len(lb) > 0 {
						fr.heap.appendedTo[a.i] = nl.i
					}
				}
			}
		case "copy":
			dst, src := p.val(fr, cc.Args[0]), p.val(fr, cc.Args[1])
			var sl []pval
			okS := false
			switch src.k {
			case pList:
				sl, okS = fr.heap.lists[src.i], fr.heap.lists[src.i] != nil
			case pShape:
				sl, okS = p.shapeList(src.i)
			case pNil:
				okS = true
			}
			if dst.k == pNil {
				fr.env[x] = pval{k: pInt, i: 0}
			} else if dl := fr.heap.lists[dst.i]; dst.k == pList && dl != nil && okS {
				n := len(dl)
				if len(sl) < n {
					n = len(sl)
				}
				vals := append([]pval{}, sl[:n]...) // source and destination may overlap
				for k := 0; k < n; k++ {
					fr.heap.storeElem(dst.i, int64(k), vals[k])
				}
				fr.env[x] = pval{k: pInt, i: int64(n)}
			} else {
				p.havoc(fr, []pval{dst})
			}
		case "max", "min":
			res, okAll, dep := pval{}, len(cc.Args) > 0, false
			for i, a := range cc.Args {
				v := p.val(fr, a)
				if v.k == pPoison {
					fr.env[x] = v
					return
				}
				if v.k != pInt {
					okAll = false
					break
				}
				dep = dep || v.dep
				if i == 0 || (b.Name() == "max" && v.i > res.i) || (b.Name() == "min" && v.i < res.i) {
					res = v
				}
			}
			if okAll {
				res.dep = dep
				fr.env[x] = res
			}
		}
		return
	}
	// gorgonia / external calls
	if p.onExt != nil {
		key := ""
		var operands []ssa.Value
		if cc.IsInvoke() {
			if cc.Method.Pkg() != nil && cc.Method.Pkg().Path() == pkgTensor {
				key = pkgTensor + "#" + cc.Method.Name()
				operands = append(operands, cc.Value)
			}
		} else if sc := cc.StaticCallee(); sc != nil && fnPkgPath(sc) == pkgTensor {
			key = pkgTensor + "." + sc.Name()
			if sc.Signature.Recv() != nil {
				key = pkgTensor + "#" + sc.Name()
			}
		}
		if key != "" {
			operands = append(operands, cc.Args...)
			vals := make([]pval, len(operands))
			for i, o := range operands {
				vals[i] = p.val(fr, o)
			}
			p.onExt(fn, x, key, vals, fr.heap)
		}
	}
	if p.extModel != nil {
		key := ""
		var operands []ssa.Value
		if cc.IsInvoke() {
			if cc.Method.Pkg() != nil && cc.Method.Pkg().Path() == pkgTensor {
				key = pkgTensor + "#" + cc.Method.Name()
				operands = append(operands, cc.Value)
			}
		} else if sc := cc.StaticCallee(); sc != nil && fnPkgPath(sc) == pkgTensor {
			key = pkgTensor + "." + sc.Name()
			if sc.Signature.Recv() != nil {
				key = pkgTensor + "#" + sc.Name()
			}
		}
		if key != "" {
			operands = append(operands, cc.Args...)
			vals := make([]pval, len(operands))
			for i, o := range operands {
				vals[i] = p.val(fr, o)
			}
			if res, ok := p.extModel(key, x, vals, fr.heap); ok {
				if len(res) == 1 {
					fr.env[x] = res[0]
				} else if len(res) > 1 {
					fr.tuples[x] = res
				}
				return
			}
		}
	}
	if cc.IsInvoke() && p.objects {
		if rv := p.val(fr, cc.Value); rv.k == pObj {
			if o := fr.heap.objs[rv.i]; o != nil && o.typ != nil {
				if m := p.c.prog.LookupMethod(types.NewPointer(o.typ), cc.Method.Pkg(), cc.Method.Name()); m != nil && len(m.Blocks) > 0 && depth < p.maxDepth() {
					args := []pval{rv}
					for _, a := range cc.Args {
						args = append(args, p.val(fr, a))
					}
					res, h := p.run(m, args, depth+1, fr.heap.clone())
					if h != nil {
						fr.heap = h
					} else {
						*fr.forked = true
						p.havoc(fr, args, m)
						for i := range res {
							switch res[i].k {
							case pList, pElemAddr, pShaped, pRevList, pObj, pMap:
								res[i] = pval{k: pPoison}
							}
						}
					}
					if len(res) == 1 {
						if res[0].k != pUnknown {
							fr.env[x] = res[0]
						}
					} else if len(res) > 1 {
						fr.tuples[x] = res
					}
					return
				}
			}
		}
	}
	if cc.IsInvoke() && p.onInvoke != nil {
		if rv := p.val(fr, cc.Value); rv.k == pAbs || rv.k == pObj {
			args := make([]pval, len(cc.Args))
			for i, a := range cc.Args {
				args[i] = p.val(fr, a)
			}
			if res, ok := p.onInvoke(fn, x, rv, cc.Method.Name(), args, fr.heap); ok {
				if len(res) == 1 {
					if res[0].k != pUnknown {
						fr.env[x] = res[0]
					}
				} else if len(res) > 1 {
					fr.tuples[x] = res
				}
				return
			}
		}
	}
	name, recv := "", ssa.Value(nil)
	if cc.IsInvoke() {
		name, recv = cc.Method.Name(), cc.Value
		if cc.Method.Pkg() == nil || cc.Method.Pkg().Path() != pkgTensor {
			return
		}
	} else if sc := cc.StaticCallee(); sc != nil && fnPkgPath(sc) == pkgTensor && sc.Signature.Recv() != nil && len(cc.Args) > 0 {
		name, recv = sc.Name(), cc.Args[0]
	}
	if recv != nil {
		rv := p.val(fr, recv)
		if rv.k == pAbs && rv.s == "tensor" && !cc.IsInvoke() && p.onInvoke != nil {
			// a method of gorgonia's concrete tensor type called on an abstract tensor: the client answers as for
			// the interface method
			var margs []pval
			for _, a := range cc.Args[1:] {
				margs = append(margs, p.val(fr, a))
			}
			if res, ok := p.onInvoke(fn, x, rv, name, margs, fr.heap); ok {
				if len(res) == 1 {
					fr.env[x] = res[0]
				} else if len(res) > 1 {
					fr.tuples[x] = res
				}
			}
			return
		}
		if rv.k == pShaped {
			// a pending lazy transposition: only what reads the tensor logically is followed
			if rv.m != 0 && fr.heap.lazyT[rv.m] {
				switch name {
				case "Shape", "Dtype", "Dims", "Size", "T":
				default:
					return
				}
			}
			// the tensor's own (live) shape slice
			switch name {
			case "T":
				// t.T() of a matrix: the logical view is transposed in place, the data stay where they are. The content
				// list is kept in logical order from here on and marked: readers of the raw backing are not followed.
				if p.content && rv.m != 0 && (len(cc.Args) == 0 || (len(cc.Args) == 1 && cc.IsInvoke() && p.val(fr, cc.Args[0]).k == pNil) || (len(cc.Args) == 2 && !cc.IsInvoke() && p.val(fr, cc.Args[1]).k == pNil)) {
					sh, cont := fr.heap.lists[rv.j], fr.heap.lists[rv.m]
					if len(sh) == 2 && cont != nil && sh[0].k == pInt && sh[1].k == pInt && int64(len(cont)) == sh[0].i*sh[1].i && len(fr.heap.alias[rv.m]) == 0 {
						r, cN := sh[0].i, sh[1].i
						nc := make([]pval, len(cont))
						for i := int64(0); i < r; i++ {
							for j := int64(0); j < cN; j++ {
								nc[j*r+i] = cont[i*cN+j]
							}
						}
						copy(cont, nc)
						sh[0], sh[1] = sh[1], sh[0]
						if fr.heap.lazyT == nil {
							fr.heap.lazyT = map[int64]bool{}
						}
						if fr.heap.lazyT[rv.m] {
							delete(fr.heap.lazyT, rv.m) // transposed back
						} else {
							fr.heap.lazyT[rv.m] = true
						}
						fr.env[x] = pval{k: pNil}
					}
				}
			case "Clone":
				if l := fr.heap.lists[rv.j]; l != nil {
					nv := pval{k: pShaped, i: rv.i, j: fr.heap.alloc(append([]pval{}, l...)).i}
					if rv.m != 0 && fr.heap.lists[rv.m] != nil {
						nv.m = fr.heap.alloc(append([]pval{}, fr.heap.lists[rv.m]...)).i
					}
					fr.env[x] = nv
				}
			case "Shape":
				fr.env[x] = pval{k: pList, i: rv.j}
			case "Dtype":
				if p.content && p.contentDtype.k != pUnknown {
					fr.env[x] = p.contentDtype // every tensor of a walk with content has the one element type
				}
			case "Dims":
				if l := fr.heap.lists[rv.j]; l != nil {
					fr.env[x] = pval{k: pInt, i: int64(len(l))}
				}
			case "IsScalar":
				if l := fr.heap.lists[rv.j]; l != nil {
					fr.env[x] = pval{k: pBool, b: len(l) == 0}
				}
			case "Zero":
				if p.content && rv.m != 0 {
					if l := fr.heap.lists[rv.m]; l != nil {
						for k := range l {
							fr.heap.storeElem(rv.m, int64(k), pval{k: pStr, s: "0"})
						}
					}
				}
			case "ScalarValue":
				if p.content && rv.m != 0 {
					if l := fr.heap.lists[rv.m]; len(l) == 1 {
						fr.env[x] = l[0]
					}
				}
			case "At", "SetAt":
				if p.content && rv.m != 0 {
					sh, cont := fr.heap.lists[rv.j], fr.heap.lists[rv.m]
					var coords []pval
					ci := len(cc.Args) - 1
					switch cv := p.val(fr, cc.Args[ci]); cv.k {
					case pList:
						coords = fr.heap.lists[cv.i]
					case pNil:
						coords = []pval{}
					}
					if sh == nil || cont == nil || coords == nil || len(coords) != len(sh) {
						if name == "SetAt" && cont != nil {
							fr.heap.forget(rv.m)
						}
						break
					}
					flat, okc := int64(0), true
					for d := range sh {
						if sh[d].k != pInt || coords[d].k != pInt {
							okc = false
							break
						}
						if coords[d].i < 0 || coords[d].i >= sh[d].i {
							// gorgonia refuses coordinates outside the shape
							if name == "At" {
								fr.tuples[x] = []pval{{}, {k: pNonNil}}
							} else {
								fr.env[x] = pval{k: pNonNil}
							}
							return
						}
						flat = flat*sh[d].i + coords[d].i
					}
					if !okc || flat >= int64(len(cont)) {
						if name == "SetAt" {
							fr.heap.forget(rv.m)
						}
						break
					}
					if name == "At" {
						fr.tuples[x] = []pval{cont[flat], {k: pNil}}
					} else {
						v := p.val(fr, cc.Args[ci-1])
						if v.k == pUnknown {
							v = pval{k: pPoison}
						}
						fr.heap.storeElem(rv.m, flat, v)
						fr.env[x] = pval{k: pNil}
					}
				}
			case "Data":
				// the raw backing of a tensor with content: the elements in order (a scalar: the element itself)
				if p.content && rv.m != 0 {
					sh, cont := fr.heap.lists[rv.j], fr.heap.lists[rv.m]
					if sh != nil && cont != nil {
						if len(sh) == 0 && len(cont) == 1 {
							fr.env[x] = cont[0]
						} else {
							fr.env[x] = pval{k: pList, i: rv.m}
						}
					}
				}
			case "Apply":
				// t.Apply(f [, WithReuse(t)]): f on every element; in place with the reuse option, a new tensor without
				if p.content && rv.m != 0 && len(cc.Args) >= 1 {
					ai := 0
					if !cc.IsInvoke() {
						ai = 1
					}
					if ai >= len(cc.Args) {
						break
					}
					fv := p.val(fr, cc.Args[ai])
					cont := fr.heap.lists[rv.m]
					inPlace, plain := false, true
					if ai+1 < len(cc.Args) {
						switch o := p.val(fr, cc.Args[ai+1]); o.k {
						case pNil:
						case pList:
							for _, e := range fr.heap.lists[o.i] {
								if e.k == pReuseOpt && e.m == rv.m {
									inPlace = true
								} else {
									plain = false
								}
							}
						default:
							plain = false
						}
					}
					if fv.k != pFunc || cont == nil || !plain {
						if cont != nil {
							fr.heap.forget(rv.m)
						}
						break
					}
					out := make([]pval, len(cont))
					okAll := true
					for k, e := range append([]pval{}, cont...) {
						res, ok := p.callFunc(fr, fv, []pval{e}, depth)
						if !ok || len(res) != 1 || res[0].k == pUnknown {
							okAll = false
							break
						}
						out[k] = res[0]
					}
					if !okAll {
						if inPlace {
							fr.heap.forget(rv.m)
						}
						break
					}
					if inPlace {
						for k, v := range out {
							fr.heap.storeElem(rv.m, int64(k), v)
						}
						fr.tuples[x] = []pval{rv, {k: pNil}}
					} else if sh := fr.heap.lists[rv.j]; sh != nil {
						fr.tuples[x] = []pval{{k: pShaped, i: rv.i, j: fr.heap.alloc(append([]pval{}, sh...)).i, m: fr.heap.alloc(out).i}, {k: pNil}}
					}
				}
			case "Iterator":
				if p.content {
					if sh := fr.heap.lists[rv.j]; sh != nil {
						o := fr.heap.newObj()
						fr.heap.objs[o.i].fields[0] = fr.heap.alloc(append([]pval{}, sh...))
						fr.heap.objs[o.i].fields[1] = pval{k: pInt, i: 0}
						fr.heap.objs[o.i].fields[2] = pval{k: pStr, s: "iterator"}
						fr.env[x] = o
					}
				}
			case "Materialize":
				fr.env[x] = rv // the same elements in a tensor of their own: shape and content as they are
				if p.content && rv.m != 0 && fr.heap.lists[rv.m] != nil && fr.heap.lists[rv.j] != nil && len(fr.heap.alias[rv.m]) > 0 {
					// of a view: a copy (what is written to it later does not reach the parent)
					fr.env[x] = pval{k: pShaped, i: rv.i, j: fr.heap.alloc(append([]pval{}, fr.heap.lists[rv.j]...)).i, m: fr.heap.alloc(append([]pval{}, fr.heap.lists[rv.m]...)).i}
				}
			case "Slice":
				if res, ok := p.sliceModel(fr, rv, cc); ok {
					fr.tuples[x] = res
				}
			case "Max", "Min", "Sum":
				args := make([]pval, 0, len(cc.Args)+1)
				if cc.IsInvoke() {
					args = append(args, rv)
				}
				for _, a := range cc.Args {
					args = append(args, p.val(fr, a))
				}
				if res, ok := p.reduction(fn, x, name, fr, args); ok {
					fr.tuples[x] = res
				}
			case "Reshape":
				// the header takes the given extents (gorgonia refuses a different element count: not modelled)
				old := fr.heap.lists[rv.j]
				fr.heap.lists[rv.j] = nil
				if len(cc.Args) >= 1 {
					if a := p.val(fr, cc.Args[len(cc.Args)-1]); a.k == pList && fr.heap.lists[a.i] != nil {
						nl := fr.heap.lists[a.i]
						prod := func(l []pval) (int64, bool) {
							pr := int64(1)
							for _, e := range l {
								if e.k != pInt {
									return 0, false
								}
								pr *= e.i
							}
							return pr, true
						}
						po, ok1 := prod(old)
						pn, ok2 := prod(nl)
						if old != nil && ok1 && ok2 && po != pn {
							// gorgonia refuses a shape with another element count and leaves the tensor as it was
							fr.heap.lists[rv.j] = old
							fr.env[x] = pval{k: pNonNil}
						} else {
							fr.heap.lists[rv.j] = append([]pval{}, nl...)
							fr.env[x] = pval{k: pNil}
						}
					}
				}
			}
			return
		}
		if rv.k == pList && name == "Eq" && len(cc.Args) >= 1 {
			// gorgonia's (tensor.Shape).Eq, shape.go l.117: (n) equals (n,1) and (1,n)
			o := p.val(fr, cc.Args[len(cc.Args)-1])
			if o.k == pShape {
				if l, ok := p.shapeList(o.i); ok {
					o = fr.heap.alloc(l)
				}
			}
			a, b := fr.heap.lists[rv.i], fr.heap.lists[o.i]
			if o.k == pList && a != nil && b != nil {
				ints := func(l []pval) ([]int64, bool) {
					out := make([]int64, len(l))
					for i, e := range l {
						if e.k != pInt {
							return nil, false
						}
						out[i] = e.i
					}
					return out, true
				}
				sx, ok1 := ints(a)
				sy, ok2 := ints(b)
				if ok1 && ok2 {
					col := func(s []int64) bool { return len(s) == 2 && s[1] == 1 && s[0] > 1 }
					row := func(s []int64) bool { return len(s) == 2 && s[0] == 1 && s[1] > 1 }
					vec := func(s []int64) bool { return col(s) || row(s) || len(s) == 1 }
					res, done := false, false
					if len(sx) == 0 && len(sy) == 0 {
						res, done = true, true
					}
					if !done && vec(sx) && vec(sy) {
						switch {
						case len(sx) == 2 && len(sy) == 1:
							res, done = (col(sx) && sx[0] == sy[0]) || (row(sx) && sx[1] == sy[0]), true
						case len(sx) == 1 && len(sy) == 2:
							res, done = (col(sy) && sy[0] == sx[0]) || (row(sy) && sy[1] == sx[0]), true
						}
					}
					if !done {
						res = len(sx) == len(sy)
						for i := range sx {
							if res && sx[i] != sy[i] {
								res = false
							}
						}
					}
					fr.env[x] = pval{k: pBool, b: res}
				}
			}
			return
		}
		if rv.k == pList && name == "Clone" {
			if l := fr.heap.lists[rv.i]; l != nil {
				fr.env[x] = fr.heap.alloc(append([]pval{}, l...))
			}
			return
		}
		if rv.k == pList && (name == "Dims" || name == "TotalSize" || name == "IsScalar") {
			// methods of tensor.Shape on a list of known extents
			if l := fr.heap.lists[rv.i]; l != nil {
				switch name {
				case "Dims":
					fr.env[x] = pval{k: pInt, i: int64(len(l))}
				case "IsScalar":
					fr.env[x] = pval{k: pBool, b: len(l) == 0}
				case "TotalSize":
					pr, ok := int64(1), true
					for _, e := range l {
						if e.k != pInt {
							ok = false
						}
						pr *= e.i
					}
					if ok {
						fr.env[x] = pval{k: pInt, i: pr}
					}
				}
			} else if fr.heap.poison[rv.i] {
				fr.env[x] = pval{k: pPoison}
			}
			return
		}
		if name == "IsScalar" && (rv.k == pTensor || rv.k == pShape) && p.rankOf != nil {
			if r, ok := p.rankOf(rv.i); ok {
				fr.env[x] = pval{k: pBool, b: r == 0}
			}
			return
		}
		if rv.k == pTensor && name == "Slice" {
			// a view of an input: as for a tensor with that shape
			if l, ok := p.shapeList(rv.i); ok {
				if res, ok := p.sliceModel(fr, pval{k: pShaped, i: rv.i, j: fr.heap.alloc(l).i}, cc); ok {
					fr.tuples[x] = res
				}
			}
			return
		}
		switch {
		case rv.k == pTensor && name == "Clone":
			// a copy of the input with a header of its own
			if l, ok := p.shapeList(rv.i); ok {
				fr.env[x] = pval{k: pShaped, i: rv.i, j: fr.heap.alloc(l).i}
			}
		case rv.k == pTensor && name == "Shape":
			fr.env[x] = pval{k: pShape, i: rv.i}
		case rv.k == pTensor && name == "Data":
			fr.env[x] = pval{k: pData, i: rv.i}
		case rv.k == pTensor && name == "Dims", rv.k == pShape && name == "Dims":
			if p.rankOf != nil {
				if r, ok := p.rankOf(rv.i); ok {
					fr.env[x] = pval{k: pInt, i: r}
				}
			}
		case rv.k == pShape && name == "Clone":
			// a private copy of the extents
			if l, ok := p.shapeList(rv.i); ok {
				fr.env[x] = fr.heap.alloc(l)
			} else {
				fr.env[x] = rv
			}
		}
		return
	}
	sc := cc.StaticCallee()
	if sc == nil {
		args := make([]pval, len(cc.Args))
		for i, a := range cc.Args {
			args[i] = p.val(fr, a)
		}
		if fv := p.val(fr, cc.Value); !cc.IsInvoke() && fv.k == pFunc && fv.fn != nil {
			if fnPkgPath(fv.fn) == "math" && fv.fn.Signature.Recv() == nil {
				if v, ok := mathOnTokens(fv.fn, func(i int) pval { return args[i] }, len(args)); ok {
					fr.env[x] = v
					return
				}
			}
			if fnPkgPath(fv.fn) == pkgTensor && fv.fn.Signature.Recv() == nil && p.onExt != nil {
				// a gorgonia function reached through a function value: the client sees it like a direct call
				p.onExt(fn, x, pkgTensor+"."+fv.fn.Name(), args, fr.heap)
			}
			if fnPkgPath(fv.fn) == pkgTensor && fv.fn.Signature.Recv() == nil && p.extModel != nil {
				if res, ok := p.extModel(pkgTensor+"."+fv.fn.Name(), x, args, fr.heap); ok {
					if len(res) == 1 {
						fr.env[x] = res[0]
					} else if len(res) > 1 {
						fr.tuples[x] = res
					}
					return
				}
			}
			if fnPkgPath(fv.fn) == pkgTensor && isReductionName(strings.TrimSuffix(fv.fn.Name(), "$thunk")) {
				if res, ok := p.reduction(fn, x, strings.TrimSuffix(fv.fn.Name(), "$thunk"), fr, args); ok {
					fr.tuples[x] = res
					return
				}
			} else if (isLibFn(fv.fn) || isControlFn(fv.fn)) && len(fv.fn.Blocks) > 0 && depth < p.maxDepth() && (len(fv.fn.FreeVars) == 0 || fr.heap.lists[fv.i] != nil) {
				if p.intercept != nil {
					if res, ok := p.intercept(fn, x, fv.fn, args, fr.heap); ok {
						if len(res) == 1 {
							fr.env[x] = res[0]
						} else if len(res) > 1 {
							fr.tuples[x] = res
						}
						return
					}
				}
				if len(fv.fn.FreeVars) > 0 {
					p.nextFree = fr.heap.lists[fv.i]
				}
				res, h := p.run(fv.fn, args, depth+1, fr.heap.clone())
				if h != nil {
					fr.heap = h
				} else {
					*fr.forked = true
					p.havoc(fr, args)
					for i := range res {
						switch res[i].k {
						case pList, pElemAddr, pShaped, pRevList:
							res[i] = pval{k: pPoison}
						}
					}
				}
				if len(res) == 1 {
					if res[0].k != pUnknown {
						fr.env[x] = res[0]
					}
				} else if len(res) > 1 {
					fr.tuples[x] = res
				}
				return
			}
		}
		if p.onDyn != nil && !cc.IsInvoke() {
			if hv := p.val(fr, cc.Value); hv.k == pHookFn {
				args = append([]pval{hv}, args...)
			}
			if res, ok := p.onDyn(fn, x, args, fr.heap); ok {
				if len(res) == 1 {
					fr.env[x] = res[0]
				} else {
					fr.tuples[x] = res
				}
				return
			}
		}
		p.havoc(fr, args)
		return
	}
	switch fnPkgPath(sc) {
	case "maps":
		base := sc.Name()
		if i := strings.Index(base, "["); i >= 0 {
			base = base[:i]
		}
		switch base {
		case "Copy":
			if len(cc.Args) == 2 {
				dst, src := p.val(fr, cc.Args[0]), p.val(fr, cc.Args[1])
				if dst.k == pMap && fr.heap.maps[dst.i] != nil {
					switch src.k {
					case pMap:
						if sm := fr.heap.maps[src.i]; sm != nil {
							for i, k := range sm.keys {
								fr.heap.maps[dst.i].set(k, sm.vals[i])
							}
							return
						}
					case pNil:
						return
					}
					delete(fr.heap.maps, dst.i) // an unknown source: the content is no longer known
				}
			}
			return
		case "Clone":
			if len(cc.Args) == 1 {
				switch src := p.val(fr, cc.Args[0]); src.k {
				case pMap:
					if sm := fr.heap.maps[src.i]; sm != nil {
						nm := fr.heap.newMap()
						fr.heap.maps[nm.i] = &pmap{keys: append([]pval{}, sm.keys...), vals: append([]pval{}, sm.vals...)}
						fr.env[x] = nm
					}
				case pNil:
					fr.env[x] = src
				}
			}
			return
		}
		return
	case "slices":
		base := sc.Name()
		if i := strings.Index(base, "["); i >= 0 {
			base = base[:i]
		}
		listOf := func(v pval) ([]pval, bool) {
			switch v.k {
			case pList:
				l := fr.heap.lists[v.i]
				return l, l != nil
			case pNil:
				return nil, true
			case pShape:
				return p.shapeList(v.i)
			}
			return nil, false
		}
		switch base {
		case "Contains", "Index":
			if len(cc.Args) == 2 {
				l, okL := listOf(p.val(fr, cc.Args[0]))
				v := p.val(fr, cc.Args[1])
				if okL && (v.k == pInt || v.k == pStr || v.k == pAbs) {
					found, known, at := false, true, int64(-1)
					for i, e := range l {
						if e.k != v.k {
							known = false
						} else if sameKey(e, v) {
							found = true
							if at < 0 {
								at = int64(i)
							}
							break
						}
					}
					if known || found {
						dep := v.dep
						for _, e := range l {
							dep = dep || e.dep
						}
						if base == "Contains" {
							fr.env[x] = pval{k: pBool, b: found, dep: dep}
						} else {
							fr.env[x] = pval{k: pInt, i: at, dep: dep}
						}
					}
				}
			}
		case "ContainsFunc", "IndexFunc":
			if len(cc.Args) == 2 {
				l, okL := listOf(p.val(fr, cc.Args[0]))
				fv := p.val(fr, cc.Args[1])
				if okL && fv.k == pFunc {
					at, known := int64(-1), true
					for i, e := range l {
						res, ok := p.callFunc(fr, fv, []pval{e}, depth)
						if !ok || len(res) != 1 || res[0].k != pBool {
							known = false
							break
						}
						if res[0].b {
							at = int64(i)
							break
						}
					}
					if known {
						if base == "ContainsFunc" {
							fr.env[x] = pval{k: pBool, b: at >= 0, dep: true}
						} else {
							fr.env[x] = pval{k: pInt, i: at, dep: true}
						}
					}
				}
			}
		case "Clone":
			if len(cc.Args) == 1 {
				v := p.val(fr, cc.Args[0])
				if v.k == pNil {
					fr.env[x] = v
				} else if l, ok := listOf(v); ok {
					fr.env[x] = fr.heap.alloc(append([]pval{}, l...))
				}
			}
		case "Equal":
			if len(cc.Args) == 2 {
				a, okA := listOf(p.val(fr, cc.Args[0]))
				b, okB := listOf(p.val(fr, cc.Args[1]))
				if okA && okB {
					eq, known := len(a) == len(b), true
					for i := 0; eq && i < len(a); i++ {
						if a[i].k != b[i].k || (a[i].k != pInt && a[i].k != pStr) {
							known = false
						} else if !sameKey(a[i], b[i]) {
							eq = false
						}
					}
					if known {
						fr.env[x] = pval{k: pBool, b: eq}
					}
				}
			}
		case "Max", "Min":
			if len(cc.Args) == 1 {
				if l, ok := listOf(p.val(fr, cc.Args[0])); ok && len(l) > 0 {
					best, all := l[0], true
					for _, e := range l {
						if e.k != pInt {
							all = false
						} else if (base == "Max" && e.i > best.i) || (base == "Min" && e.i < best.i) {
							best = e
						}
					}
					if all {
						fr.env[x] = best
					}
				}
			}
		case "Sort", "Reverse":
			if a := p.val(fr, cc.Args[0]); a.k == pList {
				l := fr.heap.lists[a.i]
				all := l != nil
				for _, e := range l {
					if e.k != pInt && base == "Sort" {
						all = false
					}
				}
				if all {
					if base == "Sort" {
						sort.SliceStable(l, func(i, j int) bool { return l[i].i < l[j].i })
					} else {
						for i, j := 0, len(l)-1; i < j; i, j = i+1, j-1 {
							l[i], l[j] = l[j], l[i]
						}
					}
					for k, e := range append([]pval{}, l...) {
						fr.heap.storeElem(a.i, int64(k), e)
					}
				} else {
					fr.heap.forget(a.i)
				}
			}
		case "Delete":
			if len(cc.Args) == 3 {
				a, lo, hi := p.val(fr, cc.Args[0]), p.val(fr, cc.Args[1]), p.val(fr, cc.Args[2])
				if l := fr.heap.lists[a.i]; a.k == pList && l != nil && lo.k == pInt && hi.k == pInt && 0 <= lo.i && lo.i <= hi.i && hi.i <= int64(len(l)) {
					nl := append(append([]pval{}, l[:lo.i]...), l[hi.i:]...)
					fr.heap.forget(a.i) // the backing array is shifted in place
					fr.env[x] = fr.heap.alloc(nl)
				} else if a.k == pList {
					fr.heap.forget(a.i)
				}
			}
		default:
			args := make([]pval, len(cc.Args))
			for i, a := range cc.Args {
				args[i] = p.val(fr, a)
			}
			p.havoc(fr, args)
		}
		return
	case "sort":
		switch sc.Name() {
		case "Reverse":
			if a := p.val(fr, cc.Args[0]); a.k == pList {
				fr.env[x] = pval{k: pRevList, i: a.i}
			}
			return
		case "Sort", "Stable":
			a := p.val(fr, cc.Args[0])
			if a.k == pList || a.k == pRevList {
				l := fr.heap.lists[a.i]
				all := l != nil
				for _, e := range l {
					if e.k != pInt {
						all = false
					}
				}
				if all {
					if a.k == pRevList {
						sort.SliceStable(l, func(i, j int) bool { return l[i].i > l[j].i })
					} else {
						sort.SliceStable(l, func(i, j int) bool { return l[i].i < l[j].i })
					}
					for k, e := range append([]pval{}, l...) {
						fr.heap.storeElem(a.i, int64(k), e)
					}
				} else {
					fr.heap.forget(a.i)
				}
			}
			return
		}
	}
	if fnPkgPath(sc) == "bytes" && p.objects {
		switch {
		case sc.Name() == "NewReader" && len(cc.Args) == 1:
			if d := p.val(fr, cc.Args[0]); d.k == pList || d.k == pNil {
				o := fr.heap.newObj()
				fr.heap.objs[o.i].fields[0] = d
				fr.heap.objs[o.i].fields[1] = pval{k: pInt, i: 0}
				fr.heap.objs[o.i].fields[2] = pval{k: pStr, s: "bytes.Reader"}
				fr.env[x] = o
			}
			return
		case sc.Name() == "Read" && sc.Signature.Recv() != nil && len(cc.Args) == 2:
			rd, buf := p.val(fr, cc.Args[0]), p.val(fr, cc.Args[1])
			o := fr.heap.objs[rd.i]
			if rd.k != pObj || o == nil || o.fields[2].s != "bytes.Reader" || buf.k != pList || fr.heap.lists[buf.i] == nil {
				p.havoc(fr, []pval{buf})
				return
			}
			var data []pval
			if o.fields[0].k == pList {
				data = fr.heap.lists[o.fields[0].i]
				if data == nil {
					p.havoc(fr, []pval{buf})
					return
				}
			}
			pos := o.fields[1].i
			bl := fr.heap.lists[buf.i]
			if len(bl) == 0 {
				fr.tuples[x] = []pval{{k: pInt, i: 0}, {k: pNil}}
				return
			}
			if pos >= int64(len(data)) {
				fr.tuples[x] = []pval{{k: pInt, i: 0}, {k: pAbs, i: 77001, s: "io.EOF"}}
				return
			}
			n := int64(len(bl))
			if rem := int64(len(data)) - pos; rem < n {
				n = rem
			}
			for k := int64(0); k < n; k++ {
				fr.heap.storeElem(buf.i, k, data[pos+k])
			}
			o.fields[1] = pval{k: pInt, i: pos + n}
			fr.tuples[x] = []pval{{k: pInt, i: n}, {k: pNil}}
			return
		}
	}
	if fnPkgPath(sc) == "encoding/binary" && p.objects && strings.HasPrefix(sc.Name(), "Uint") && sc.Signature.Recv() != nil && len(cc.Args) == 2 {
		// (littleEndian / bigEndian).UintNN(b): needs NN/8 bytes (panics otherwise); the value is named after the
		// bytes it is made of
		need := map[string]int64{"Uint16": 2, "Uint32": 4, "Uint64": 8}[sc.Name()]
		buf := p.val(fr, cc.Args[1])
		order := "le"
		if rn := recvNamed(sc); rn != nil && strings.HasPrefix(rn.Obj().Name(), "big") {
			order = "be"
		}
		if buf.k == pList && fr.heap.lists[buf.i] != nil && need > 0 {
			bl := fr.heap.lists[buf.i]
			if int64(len(bl)) < need {
				p.panicAt(fn, x, fmt.Sprintf("binary.%s on a buffer of %d bytes", sc.Name(), len(bl)))
				fr.env[x] = pval{k: pPoison}
				return
			}
			okTok := true
			for k := int64(0); k < need; k++ {
				if bl[k].k != pTok || bl[k].s != "byte" || bl[k].i != bl[0].i+k {
					okTok = false
				}
			}
			if okTok {
				fr.env[x] = pval{k: pTok, i: bl[0].i, s: fmt.Sprintf("%s%d", order, need*8)}
			} else if bl[0].k == pTok {
				fr.env[x] = pval{k: pTok, i: bl[0].i, s: fmt.Sprintf("%s%d:scrambled", order, need*8)}
			}
		}
		return
	}
	if fnPkgPath(sc) == "math" && sc.Name() == "FMA" && len(cc.Args) == 3 && p.content {
		// math.FMA(x, y, z) = x*y + z on named elements
		a, b, z := p.val(fr, cc.Args[0]), p.val(fr, cc.Args[1]), p.val(fr, cc.Args[2])
		nm := func(v pval) (pval, bool) {
			switch v.k {
			case pStr:
				return v, true
			case pFloat:
				if v.s == "0" {
					return pval{k: pStr, s: "0"}, true
				}
				return pval{k: pStr, s: "f" + v.s}, true
			case pInt:
				if v.i == 0 {
					return pval{k: pStr, s: "0"}, true
				}
				return pval{k: pStr, s: fmt.Sprintf("f%d", v.i)}, true
			}
			return v, false
		}
		na, ok1 := nm(a)
		nb, ok2 := nm(b)
		nz, ok3 := nm(z)
		if ok1 && ok2 && ok3 {
			fr.env[x] = combineElems("Add", combineElems("Mul", na, nb), nz)
			return
		}
	}
	if fnPkgPath(sc) == "math" && sc.Signature.Recv() == nil && len(cc.Args) >= 1 && !strings.HasSuffix(sc.Name(), "frombits") {
		// a function of package math on element tokens: the token remembers it (operands in order)
		if v, ok := mathOnTokens(sc, func(i int) pval { return p.val(fr, cc.Args[i]) }, len(cc.Args)); ok {
			fr.env[x] = v
			return
		}
	}
	if fnPkgPath(sc) == "math" && (sc.Name() == "Float32frombits" || sc.Name() == "Float64frombits") && len(cc.Args) == 1 {
		if v := p.val(fr, cc.Args[0]); v.k == pTok {
			fr.env[x] = pval{k: pTok, i: v.i, s: v.s + "|bits"}
		}
		return
	}
	if fnPkgPath(sc) == "reflect" {
		switch sc.Name() {
		case "ValueOf":
			if len(cc.Args) == 1 {
				if v := p.val(fr, cc.Args[0]); v.k != pUnknown {
					fr.env[x] = v
				}
			}
		case "Len":
			if len(cc.Args) == 1 {
				switch v := p.val(fr, cc.Args[0]); v.k {
				case pList:
					if l := fr.heap.lists[v.i]; l != nil {
						fr.env[x] = pval{k: pInt, i: int64(len(l))}
					}
				case pNil:
					// a typed nil slice behind the interface (what a decoder returns for an empty payload)
					fr.env[x] = pval{k: pInt, i: 0}
				}
			}
		}
		return
	}
	if (fnPkgPath(sc) == "fmt" || fnPkgPath(sc) == "errors") && sc.Signature.Results().Len() == 1 && isErrorType(sc.Signature.Results().At(0).Type()) {
		fr.env[x] = pval{k: pNonNil}
		return
	}
	if fnPkgPath(sc) == pkgTensor && sc.Signature.Recv() == nil {
		// an operand with a pending lazy transposition: only the matrix product (which reads its operands logically)
		// is followed
		if sc.Name() != "MatMul" && len(fr.heap.lazyT) > 0 {
			for _, a := range cc.Args {
				if v := p.val(fr, a); v.k == pShaped && v.m != 0 && fr.heap.lazyT[v.m] {
					return
				}
			}
		}
		switch sc.Name() {
		case "Concat":
			// Concat(axis, t, ts...) refuses an axis outside [0, rank) (dense_matop.go: "Axis is out of bounds")
			if p.content && len(cc.Args) == 3 {
				if res, ok := p.concatContent(fr, p.val(fr, cc.Args[0]), p.val(fr, cc.Args[1]), p.val(fr, cc.Args[2])); ok {
					fr.tuples[x] = res
					return
				}
			}
			if len(cc.Args) >= 2 {
				ax, t := p.val(fr, cc.Args[0]), p.val(fr, cc.Args[1])
				rank, okr := int64(0), false
				switch t.k {
				case pTensor:
					if p.rankOf != nil {
						rank, okr = p.rankOf(t.i)
					}
				case pShaped:
					if l := fr.heap.lists[t.j]; l != nil {
						rank, okr = int64(len(l)), true
					}
				}
				if ax.k == pInt && okr && ax.i == -1 {
					// AllAxes: axis 0 for the shape, then used as an index (shape.go l.340, defaultengine_matop_misc.go)
					p.panicAt(fn, x, "gorgonia's Concat takes the axis -1 for 'all axes' and then indexes with it")
				} else if ax.k == pInt && okr && (ax.i < 0 || ax.i >= rank) {
					fr.tuples[x] = []pval{{k: pNil}, {k: pNonNil}}
				}
			}
		case "Repeat":
			// Repeat(t, axis, n...) multiplies the extent of the axis by n (every element n times in a row)
			if len(cc.Args) == 3 {
				t, ax := p.val(fr, cc.Args[0]), p.val(fr, cc.Args[1])
				var n pval
				switch r := p.val(fr, cc.Args[2]); r.k {
				case pList:
					if l := fr.heap.lists[r.i]; len(l) == 1 {
						n = l[0]
					}
				case pInt:
					n = r
				}
				if t.k == pTensor {
					// an input as it came: the same with a header of known shape (Repeat returns a new tensor anyway)
					if l, ok := p.shapeList(t.i); ok {
						t = pval{k: pShaped, i: t.i, j: fr.heap.alloc(l).i}
					}
				}
				if t.k == pShaped && ax.k == pInt && n.k == pInt {
					if l := fr.heap.lists[t.j]; l != nil && ax.i >= 0 && ax.i < int64(len(l)) && l[ax.i].k == pInt {
						shape := make([]int64, len(l))
						okAll := true
						for i, e := range l {
							if e.k != pInt {
								okAll = false
							}
							shape[i] = e.i
						}
						if okAll {
							if p.onRepeat != nil {
								p.onRepeat(fn, x, shape, ax.i, n.i)
							}
							nl := append([]pval{}, l...)
							nl[ax.i] = pval{k: pInt, i: l[ax.i].i * n.i}
							nv := pval{k: pShaped, i: t.i, j: fr.heap.alloc(nl).i}
							// the data: every element along the axis n times in a row (numpy.repeat, which gorgonia's
							// Repeat documents and implements)
							if old := fr.heap.lists[t.m]; t.m != 0 && old != nil && n.i >= 0 {
								outer, inner := int64(1), int64(1)
								for _, e := range shape[:ax.i] {
									outer *= e
								}
								for _, e := range shape[ax.i+1:] {
									inner *= e
								}
								ext := shape[ax.i]
								if int64(len(old)) == outer*ext*inner && outer*ext*inner*n.i <= 4096 {
									nc := make([]pval, 0, outer*ext*inner*n.i)
									for o := int64(0); o < outer; o++ {
										for e := int64(0); e < ext; e++ {
											for r := int64(0); r < n.i; r++ {
												for i := int64(0); i < inner; i++ {
													nc = append(nc, old[(o*ext+e)*inner+i])
												}
											}
										}
									}
									nv.m = fr.heap.alloc(nc).i
								}
							}
							fr.tuples[x] = []pval{nv, {k: pNil}}
						}
					}
				}
			}
		case "NewDense":
			if p.content && len(cc.Args) >= 2 {
				if sv := p.val(fr, cc.Args[1]); sv.k == pList && fr.heap.lists[sv.i] != nil {
					shl := fr.heap.lists[sv.i]
					total, okS := int64(1), true
					for _, e := range shl {
						if e.k != pInt || e.i < 0 {
							okS = false
						}
						total *= e.i
					}
					if okS && total <= 4096 {
						cont := make([]pval, total)
						for k := range cont {
							cont[k] = pval{k: pStr, s: "0"}
						}
						fr.env[x] = pval{k: pShaped, i: 900, j: fr.heap.alloc(append([]pval{}, shl...)).i, m: fr.heap.alloc(cont).i}
					}
					if !okS && total < 0 {
						allInt := true
						for _, e := range shl {
							if e.k != pInt {
								allInt = false
							}
						}
						if allInt {
							// gorgonia allocates make([]byte, size*total): a negative length panics (array.go, malloc)
							p.panicAt(fn, x, "NewDense with a negative extent (makeslice: len out of range)")
							fr.dead = true
						}
					}
				}
			}
		case "Argmax":
			// tensor.Argmax(t, axis): positions of the largest elements along the axis (integer content only)
			if p.content && len(cc.Args) == 2 {
				t, ax := p.val(fr, cc.Args[0]), p.val(fr, cc.Args[1])
				if t.k == pShaped && t.m != 0 && ax.k == pInt && !fr.heap.lazyT[t.m] {
					shl, cont := fr.heap.lists[t.j], fr.heap.lists[t.m]
					shape := make([]int64, len(shl))
					okS := shl != nil && cont != nil
					for i, e := range shl {
						if e.k != pInt {
							okS = false
						}
						shape[i] = e.i
					}
					if okS && ax.i >= 0 && ax.i < int64(len(shape)) {
						if vals, ok := reduceContent(shape, cont, map[int64]bool{ax.i: true}, false, "Argmax"); ok {
							var osh []pval
							for i, e := range shape {
								if int64(i) != ax.i {
									osh = append(osh, pval{k: pInt, i: e})
								}
							}
							if osh == nil {
								osh = []pval{}
							}
							fr.tuples[x] = []pval{{k: pShaped, i: t.i, j: fr.heap.alloc(osh).i, m: fr.heap.alloc(vals).i}, {k: pNil}}
						}
					} else if okS {
						fr.tuples[x] = []pval{{k: pNil}, {k: pNonNil}}
					}
				}
			}
		case "Neg", "Exp", "Div":
			// element-wise functions of the tensor library on named elements: Neg folds into the normal form, Exp and
			// Div become opaque atoms; with UseUnsafe() the result is written into the (first) tensor operand
			if p.content && len(cc.Args) >= 1 {
				nOps := 1
				if sc.Name() == "Div" {
					nOps = 2
				}
				if len(cc.Args) < nOps {
					break
				}
				unsafe, plain := false, true
				if len(cc.Args) > nOps {
					o := p.val(fr, cc.Args[nOps])
					plain = o.k == pNil || o.k == pList && len(fr.heap.lists[o.i]) == 0
					if o.k == pList {
						if ol := fr.heap.lists[o.i]; len(ol) == 1 && ol[0].k == pReuseOpt && ol[0].s == "unsafe" && ol[0].m == 0 {
							plain, unsafe = true, true
						}
					}
				}
				if !plain {
					break
				}
				scalarName := func(v pval) (pval, bool) {
					switch v.k {
					case pStr:
						return v, true
					case pFloat:
						return pval{k: pStr, s: "f" + v.s}, true
					case pInt:
						return pval{k: pStr, s: fmt.Sprintf("f%d", v.i)}, true
					}
					return v, false
				}
				var dst pval
				var out []pval
				switch sc.Name() {
				case "Neg", "Exp":
					t := p.val(fr, cc.Args[0])
					if t.k != pShaped || t.m == 0 || fr.heap.lists[t.m] == nil || fr.heap.lists[t.j] == nil {
						break
					}
					dst = t
					for _, e := range fr.heap.lists[t.m] {
						if sc.Name() == "Neg" {
							out = append(out, combineElems("Sub", pval{k: pStr, s: "0"}, e))
						} else {
							en, ok := scalarName(e)
							if !ok {
								out = nil
								break
							}
							out = append(out, atomElem("Exp", en))
						}
					}
				case "Div":
					a, b := p.val(fr, cc.Args[0]), p.val(fr, cc.Args[1])
					an, aScalar := scalarName(a)
					bn, bScalar := scalarName(b)
					switch {
					case aScalar && b.k == pShaped && b.m != 0 && fr.heap.lists[b.m] != nil:
						dst = b
						for _, e := range fr.heap.lists[b.m] {
							en, ok := scalarName(e)
							if !ok {
								out = nil
								break
							}
							out = append(out, atomElem("Div", pval{k: pStr, s: an.s + "|" + en.s}))
						}
					case bScalar && a.k == pShaped && a.m != 0 && fr.heap.lists[a.m] != nil:
						dst = a
						for _, e := range fr.heap.lists[a.m] {
							en, ok := scalarName(e)
							if !ok {
								out = nil
								break
							}
							out = append(out, atomElem("Div", pval{k: pStr, s: en.s + "|" + bn.s}))
						}
					case a.k == pShaped && b.k == pShaped && a.m != 0 && b.m != 0:
						ca, cb := fr.heap.lists[a.m], fr.heap.lists[b.m]
						if ca != nil && cb != nil && len(ca) == len(cb) && sameInts(fr.heap.lists[a.j], fr.heap.lists[b.j]) {
							dst = a
							for k := range ca {
								x1, ok1 := scalarName(ca[k])
								x2, ok2 := scalarName(cb[k])
								if !ok1 || !ok2 {
									out = nil
									break
								}
								out = append(out, atomElem("Div", pval{k: pStr, s: x1.s + "|" + x2.s}))
							}
						}
					}
				}
				if out == nil || dst.k != pShaped || len(out) != len(fr.heap.lists[dst.m]) || fr.heap.lazyT[dst.m] {
					break
				}
				for _, e := range out {
					if e.k != pStr {
						out = nil
					}
				}
				if out == nil {
					break
				}
				if unsafe {
					for k, v := range out {
						fr.heap.storeElem(dst.m, int64(k), v)
					}
					fr.tuples[x] = []pval{dst, {k: pNil}}
				} else {
					fr.tuples[x] = []pval{{k: pShaped, i: dst.i, j: fr.heap.alloc(append([]pval{}, fr.heap.lists[dst.j]...)).i, m: fr.heap.alloc(out).i}, {k: pNil}}
				}
			}
		case "Mul", "Add", "Sub":
			if p.content && len(cc.Args) >= 2 {
				a, b := p.val(fr, cc.Args[0]), p.val(fr, cc.Args[1])
				plain := true   // no WithReuse / WithIncr
				unsafe := false // UseUnsafe(): the result is written into the first tensor operand, which is returned
				if len(cc.Args) >= 3 {
					o := p.val(fr, cc.Args[2])
					plain = o.k == pNil || o.k == pList && len(fr.heap.lists[o.i]) == 0
					if o.k == pList {
						if ol := fr.heap.lists[o.i]; len(ol) == 1 && ol[0].k == pReuseOpt && ol[0].s == "unsafe" && ol[0].m == 0 {
							plain, unsafe = true, true
						}
					}
				}
				if unsafe {
					// settle the result first (as for the plain form), then move it into the operand
					defer func() {
						t, ok := fr.tuples[x]
						if !ok || len(t) != 2 || t[0].k != pShaped || t[1].k != pNil {
							return
						}
						dst := a
						if dst.k != pShaped {
							dst = b
						}
						dl, rl := fr.heap.lists[dst.m], fr.heap.lists[t[0].m]
						if dst.k != pShaped || dst.m == 0 || dl == nil || rl == nil || len(dl) != len(rl) || fr.heap.lazyT[dst.m] {
							delete(fr.tuples, x)
							return
						}
						for k, v := range append([]pval{}, rl...) {
							fr.heap.storeElem(dst.m, int64(k), v)
						}
						fr.tuples[x] = []pval{dst, {k: pNil}}
					}()
				}
				if sc.Name() != "Mul" && plain && ((a.k == pShaped && a.m != 0 && (b.k == pStr || b.k == pFloat || b.k == pInt)) || (b.k == pShaped && b.m != 0 && (a.k == pStr || a.k == pFloat || a.k == pInt))) {
					// a tensor plus / minus a Go scalar (in either order): element by element
					t, scal, tensorFirst := a, b, true
					if a.k != pShaped {
						t, scal, tensorFirst = b, a, false
					}
					ct, st := fr.heap.lists[t.m], fr.heap.lists[t.j]
					if ct != nil && st != nil {
						out := make([]pval, len(ct))
						for k := range ct {
							if tensorFirst {
								out[k] = combineElems(sc.Name(), ct[k], scal)
							} else {
								out[k] = combineElems(sc.Name(), scal, ct[k])
							}
						}
						fr.tuples[x] = []pval{{k: pShaped, i: t.i, j: fr.heap.alloc(append([]pval{}, st...)).i, m: fr.heap.alloc(out).i}, {k: pNil}}
					}
				}
				if scal, t := b, a; plain && sc.Name() == "Mul" && ((a.k == pShaped && a.m != 0 && (b.k == pStr || b.k == pFloat)) || (b.k == pShaped && b.m != 0 && (a.k == pStr || a.k == pFloat))) {
					// a tensor times a Go scalar: every element times that scalar (the scalar 1 leaves them as they are)
					if a.k != pShaped {
						scal, t = a, b
					}
					ct, st := fr.heap.lists[t.m], fr.heap.lists[t.j]
					if ct != nil && st != nil {
						name := scal.s
						if scal.k == pFloat {
							name = "f" + scal.s
						}
						out := make([]pval, len(ct))
						for k := range ct {
							if scal.k == pFloat && (scal.s == "1" || scal.s == "1.0") {
								out[k] = ct[k]
							} else {
								out[k] = combineElems("Mul", ct[k], pval{k: pStr, s: name})
							}
						}
						fr.tuples[x] = []pval{{k: pShaped, i: t.i, j: fr.heap.alloc(append([]pval{}, st...)).i, m: fr.heap.alloc(out).i}, {k: pNil}}
					}
				}
				if plain && a.k == pShaped && b.k == pShaped && a.m != 0 && b.m != 0 {
					ca, cb := fr.heap.lists[a.m], fr.heap.lists[b.m]
					sa, sb := fr.heap.lists[a.j], fr.heap.lists[b.j]
					if ca != nil && cb != nil && sa != nil && sb != nil && len(ca) == len(cb) && sameInts(sa, sb) {
						out := make([]pval, len(ca))
						for k := range ca {
							out[k] = combineElems(sc.Name(), ca[k], cb[k])
						}
						fr.tuples[x] = []pval{{k: pShaped, i: a.i, j: fr.heap.alloc(append([]pval{}, sa...)).i, m: fr.heap.alloc(out).i}, {k: pNil}}
					} else if sa != nil && sb != nil && !sameInts(sa, sb) {
						fr.tuples[x] = []pval{{k: pNil}, {k: pNonNil}} // gorgonia refuses operands of different shapes
					}
				}
			}
		case "Sum":
			if p.content && len(cc.Args) >= 1 {
				a := p.val(fr, cc.Args[0])
				noAxes := len(cc.Args) == 1 || p.val(fr, cc.Args[len(cc.Args)-1]).k == pNil
				if a.k == pShaped && a.m != 0 && noAxes {
					if ca := fr.heap.lists[a.m]; ca != nil {
						acc := pval{k: pStr, s: "0"}
						for _, e := range ca {
							acc = combineElems("Add", acc, e)
						}
						fr.tuples[x] = []pval{{k: pShaped, i: a.i, j: fr.heap.alloc([]pval{}).i, m: fr.heap.alloc([]pval{acc}).i}, {k: pNil}}
					}
				}
			}
		case "MatMul":
			// with content: the sums of products, written into the reuse tensor when one is given
			if p.content && len(cc.Args) >= 2 {
				a, b := p.val(fr, cc.Args[0]), p.val(fr, cc.Args[1])
				var reuse *pval
				plain := true
				if len(cc.Args) >= 3 {
					switch o := p.val(fr, cc.Args[2]); o.k {
					case pNil:
					case pList:
						for _, e := range fr.heap.lists[o.i] {
							if e.k == pReuseOpt {
								ev := e
								ev.k = pShaped
								reuse = &ev
							} else {
								plain = false
							}
						}
						if fr.heap.lists[o.i] == nil {
							plain = false
						}
					default:
						plain = false
					}
				}
				if a.k == pShaped && b.k == pShaped && a.m != 0 && b.m != 0 && plain {
					sa, sb, ca, cb := fr.heap.lists[a.j], fr.heap.lists[b.j], fr.heap.lists[a.m], fr.heap.lists[b.m]
					if sa != nil && sb != nil && ca != nil && cb != nil {
						if len(sa) != 2 || len(sb) != 2 {
							fr.tuples[x] = []pval{{k: pNil}, {k: pNonNil}} // "MatMul requires both operands to be matrices"
							break
						}
						if sa[0].k == pInt && sa[1].k == pInt && sb[0].k == pInt && sb[1].k == pInt {
							m, k, k2, n := sa[0].i, sa[1].i, sb[0].i, sb[1].i
							if k != k2 {
								fr.tuples[x] = []pval{{k: pNil}, {k: pNonNil}}
								break
							}
							out := make([]pval, m*n)
							for i := int64(0); i < m; i++ {
								for j := int64(0); j < n; j++ {
									acc := pval{k: pStr, s: "0"}
									for q := int64(0); q < k; q++ {
										acc = combineElems("Add", acc, combineElems("Mul", ca[i*k+q], cb[q*n+j]))
									}
									out[i*n+j] = acc
								}
							}
							if reuse != nil {
								rl, rs := fr.heap.lists[reuse.m], fr.heap.lists[reuse.j]
								if rl == nil || rs == nil || int64(len(rl)) != m*n {
									// gorgonia refuses a reuse tensor of another size
									fr.tuples[x] = []pval{{k: pNil}, {k: pNonNil}}
									break
								}
								for q, v := range out {
									fr.heap.storeElem(reuse.m, int64(q), v)
								}
								fr.tuples[x] = []pval{*reuse, {k: pNil}}
								break
							}
							fr.tuples[x] = []pval{{k: pShaped, i: a.i, j: fr.heap.alloc([]pval{{k: pInt, i: m}, {k: pInt, i: n}}).i, m: fr.heap.alloc(out).i}, {k: pNil}}
						}
					}
				}
			}
			if _, done := fr.tuples[x]; done {
				break
			}
			// the shape contract for two matrices: (m,k) x (k,n) -> (m,n), other inner extents are refused; with a
			// reuse option the result is written into the given tensor (shape effect only)
			if len(cc.Args) >= 2 {
				shp := func(v pval) ([]pval, bool) {
					switch v.k {
					case pShaped:
						l := fr.heap.lists[v.j]
						return l, l != nil
					case pTensor:
						return p.shapeList(v.i)
					}
					return nil, false
				}
				a, okA := shp(p.val(fr, cc.Args[0]))
				b, okB := shp(p.val(fr, cc.Args[1]))
				if okA && okB && len(a) == 2 && len(b) == 2 && a[1].k == pInt && b[0].k == pInt && a[0].k == pInt && b[1].k == pInt {
					if a[1].i != b[0].i {
						fr.tuples[x] = []pval{{k: pNil}, {k: pNonNil}}
					} else {
						src := p.val(fr, cc.Args[0])
						fr.tuples[x] = []pval{{k: pShaped, i: src.i, j: fr.heap.alloc([]pval{a[0], b[1]}).i}, {k: pNil}}
					}
				}
			}
		case "WithShape":
			if len(cc.Args) == 1 {
				switch a := p.val(fr, cc.Args[0]); a.k {
				case pShape:
					fr.env[x] = pval{k: pShapeOpt, i: a.i}
				case pList:
					if l := fr.heap.lists[a.i]; l != nil {
						fr.env[x] = pval{k: pShapeOpt, i: -1, j: fr.heap.alloc(append([]pval{}, l...)).i}
					}
				}
			}
		case "WithBacking":
			if p.content && len(cc.Args) >= 1 {
				if a := p.val(fr, cc.Args[0]); a.k == pList && fr.heap.lists[a.i] != nil {
					fr.env[x] = pval{k: pBackOpt, j: a.i}
				}
			}
		case "Copy":
			// tensor.Copy(dst, src): element by element in logical order; the sizes have to agree
			if p.content && len(cc.Args) == 2 {
				d, sv := p.val(fr, cc.Args[0]), p.val(fr, cc.Args[1])
				if d.k == pShaped && sv.k == pShaped && d.m != 0 && sv.m != 0 {
					dl, sl := fr.heap.lists[d.m], fr.heap.lists[sv.m]
					switch {
					case dl == nil || sl == nil:
						if dl != nil {
							fr.heap.forget(d.m)
						}
					case len(dl) != len(sl):
						fr.env[x] = pval{k: pNonNil}
					default:
						vals := append([]pval{}, sl...)
						for k, v := range vals {
							fr.heap.storeElem(d.m, int64(k), v)
						}
						fr.env[x] = pval{k: pNil}
					}
				}
			}
		case "Transpose":
			// tensor.Transpose(t, perm...): a new tensor with the axes permuted (no perm: reversed)
			if p.content && len(cc.Args) >= 1 {
				t := p.val(fr, cc.Args[0])
				var perm []int64
				okP := true
				if len(cc.Args) >= 2 {
					switch pv := p.val(fr, cc.Args[1]); pv.k {
					case pNil:
					case pList:
						for _, e := range fr.heap.lists[pv.i] {
							if e.k != pInt {
								okP = false
							}
							perm = append(perm, e.i)
						}
						if fr.heap.lists[pv.i] == nil {
							okP = false
						}
					default:
						okP = false
					}
				}
				if t.k == pShaped && t.m != 0 && okP {
					shl, cont := fr.heap.lists[t.j], fr.heap.lists[t.m]
					if shl != nil && cont != nil {
						r := len(shl)
						shape := make([]int64, r)
						okS := true
						for i, e := range shl {
							if e.k != pInt {
								okS = false
							}
							shape[i] = e.i
						}
						if perm == nil {
							for i := r - 1; i >= 0; i-- {
								perm = append(perm, int64(i))
							}
						}
						seenAx := map[int64]bool{}
						permOK := len(perm) == r
						for _, a := range perm {
							if a < 0 || a >= int64(r) || seenAx[a] {
								permOK = false
							}
							seenAx[a] = true
						}
						if okS && permOK {
							nshape := make([]int64, r)
							for i, a := range perm {
								nshape[i] = shape[a]
							}
							strides := make([]int64, r)
							acc := int64(1)
							for i := r - 1; i >= 0; i-- {
								strides[i] = acc
								acc *= shape[i]
							}
							if acc == int64(len(cont)) {
								nc := make([]pval, 0, len(cont))
								idx := make([]int64, r)
								var rec func(d int)
								rec = func(d int) {
									if d == r {
										off := int64(0)
										for i, a := range perm {
											off += idx[i] * strides[a]
										}
										nc = append(nc, cont[off])
										return
									}
									for idx[d] = 0; idx[d] < nshape[d]; idx[d]++ {
										rec(d + 1)
									}
								}
								rec(0)
								nsl := make([]pval, r)
								for i, e := range nshape {
									nsl[i] = pval{k: pInt, i: e}
								}
								fr.tuples[x] = []pval{{k: pShaped, i: t.i, j: fr.heap.alloc(nsl).i, m: fr.heap.alloc(nc).i}, {k: pNil}}
							}
						} else if okS {
							fr.tuples[x] = []pval{{k: pNil}, {k: pNonNil}} // gorgonia refuses what is not a permutation of the axes
						}
					}
				}
			}
		case "UseUnsafe":
			if p.content && len(cc.Args) == 0 {
				fr.env[x] = pval{k: pReuseOpt, s: "unsafe"} // the operation writes its result into its first tensor operand
			}
		case "WithReuse":
			if p.content && len(cc.Args) == 1 {
				if t := p.val(fr, cc.Args[0]); t.k == pShaped && t.m != 0 {
					o := t
					o.k = pReuseOpt
					fr.env[x] = o
				}
			}
		case "New":
			if len(cc.Args) == 1 {
				if a := p.val(fr, cc.Args[0]); a.k == pList {
					if p.content {
						// with content: a backing given as a list of known elements, or zeros
						var shl, back []pval
						haveShape := false
						backID := int64(0)
						for _, e := range fr.heap.lists[a.i] {
							switch e.k {
							case pShapeOpt:
								if e.j != 0 {
									shl, haveShape = fr.heap.lists[e.j], fr.heap.lists[e.j] != nil
								}
							case pBackOpt:
								back, backID = fr.heap.lists[e.j], e.j
							}
						}
						if haveShape {
							total, okS := int64(1), true
							for _, e := range shl {
								if e.k != pInt || e.i < 0 {
									okS = false
								}
								total *= e.i
							}
							if okS && total <= 4096 {
								var cont []pval
								switch {
								case back != nil && int64(len(back)) == total:
									// the tensor is built over the Go slice: they share their elements
									fr.env[x] = pval{k: pShaped, i: 900, j: fr.heap.alloc(append([]pval{}, shl...)).i, m: backID}
									return
								case back != nil:
									p.panicAt(fn, x, fmt.Sprintf("tensor.New: a backing of %d elements for a shape of %d", len(back), total))
									fr.dead = true
									return
								default:
									cont = make([]pval, total)
									for k := range cont {
										cont[k] = pval{k: pStr, s: "0"}
									}
								}
								fr.env[x] = pval{k: pShaped, i: 900, j: fr.heap.alloc(append([]pval{}, shl...)).i, m: fr.heap.alloc(cont).i}
								return
							}
						} else if back != nil {
							// no shape given: a vector over the backing
							fr.env[x] = pval{k: pShaped, i: 900, j: fr.heap.alloc([]pval{{k: pInt, i: int64(len(back))}}).i, m: backID}
							return
						}
					}
					for _, e := range fr.heap.lists[a.i] {
						if e.k == pShapeOpt {
							if e.j != 0 {
								if l := fr.heap.lists[e.j]; l != nil {
									fr.env[x] = pval{k: pShaped, i: e.i, j: fr.heap.alloc(append([]pval{}, l...)).i}
								}
							} else if l, ok := p.shapeList(e.i); ok {
								fr.env[x] = pval{k: pShaped, i: e.i, j: fr.heap.alloc(l).i}
							}
						}
					}
				}
			}
		}
		return
	}
	if fnPkgPath(sc) == "sort" && sc.Name() == "Ints" && len(cc.Args) == 1 {
		if a := p.val(fr, cc.Args[0]); a.k == pList {
			l := fr.heap.lists[a.i]
			all := l != nil
			for _, e := range l {
				if e.k != pInt {
					all = false
				}
			}
			if all {
				sort.SliceStable(l, func(i, j int) bool { return l[i].i < l[j].i })
				for k, e := range append([]pval{}, l...) {
					fr.heap.storeElem(a.i, int64(k), e)
				}
			} else {
				fr.heap.forget(a.i)
			}
		}
		return
	}
	if p.inInit && sc.Name() == "init" && sc.Signature.Recv() == nil && !p.initPkgs[fnPkgPath(sc)] {
		return // the initialiser of another package: not part of what is being set up
	}
	if p.inInit && sc.Signature.Recv() == nil && strings.HasSuffix(p.c.fileOf(sc.Pos()), ".pb.go") {
		return // protobuf's generated registration code: sets up descriptors, none of the tables the walk reads
	}
	if !(isLibFn(sc) || isControlFn(sc)) || len(sc.Blocks) == 0 || depth >= p.maxDepth() {
		args := make([]pval, len(cc.Args))
		for i, a := range cc.Args {
			args[i] = p.val(fr, a)
		}
		p.havoc(fr, args)
		return
	}
	args := make([]pval, len(cc.Args))
	any := false
	for i, a := range cc.Args {
		args[i] = p.val(fr, a)
		if args[i].k != pUnknown {
			any = true
		}
	}
	if !any && len(cc.Args) > 0 {
		return
	}
	// the integer content of a list-valued input, as the audited converter (R25: all elements, in order) returns it
	if sc.Name() == "AnyToIntSlice" && fnPkgPath(sc) == pkgOps && len(args) == 1 && args[0].k == pData && p.inputList != nil {
		if l, ok := p.inputList(args[0].i); ok {
			pl := make([]pval, len(l))
			for i, v := range l {
				pl[i] = pval{k: pInt, i: v, dep: true}
			}
			fr.tuples[x] = []pval{fr.heap.alloc(pl), {k: pNil}}
			return
		}
	}
	if sc.Name() == "IfScalarToSlice" && fnPkgPath(sc) == pkgOps && len(args) == 1 && args[0].k == pData {
		fr.env[x] = args[0]
		return
	}
	if p.intercept != nil {
		if res, ok := p.intercept(fn, x, sc, args, fr.heap); ok {
			if len(res) == 1 {
				fr.env[x] = res[0]
			} else if len(res) > 1 {
				fr.tuples[x] = res
			}
			return
		}
	}
	if p.onLib != nil {
		p.onLib(fn, x, sc, args, fr.heap)
	}
	if len(sc.FreeVars) > 0 {
		fv := p.val(fr, cc.Value)
		if fv.k != pFunc || fr.heap.lists[fv.i] == nil {
			p.havoc(fr, args)
			return
		}
		p.nextFree = fr.heap.lists[fv.i]
	}
	res, h := p.run(sc, args, depth+1, fr.heap.clone())
	if h != nil {
		fr.heap = h
	} else {
		*fr.forked = true
		p.havoc(fr, args, sc)
		for i := range res {
			switch res[i].k {
			case pList, pElemAddr, pShaped, pRevList:
				res[i] = pval{k: pPoison} // refers to a heap that was not adopted
			}
		}
	}
	switch len(res) {
	case 0:
	case 1:
		if res[0].k != pUnknown {
			fr.env[x] = res[0]
		}
	default:
		fr.tuples[x] = res
	}
}

// callFunc calls a function value of the library (a closure with known bindings included) with the given
// arguments on the frame's heap.
func (p *pinterp) callFunc(fr *pframe, fv pval, args []pval, depth int) ([]pval, bool) {
	if fv.k != pFunc || fv.fn == nil || len(fv.fn.Blocks) == 0 || !(isLibFn(fv.fn) || isControlFn(fv.fn)) || depth >= p.maxDepth() {
		return nil, false
	}
	if len(fv.fn.FreeVars) > 0 {
		if fr.heap.lists[fv.i] == nil {
			return nil, false
		}
		p.nextFree = fr.heap.lists[fv.i]
	}
	res, h := p.run(fv.fn, args, depth+1, fr.heap.clone())
	if h == nil {
		return nil, false
	}
	fr.heap = h
	return res, true
}

// reduction models the shape contract of gorgonia's Dense.Max/Min/Sum(t, axes...): the listed axes go, all
// axes go when none is listed (the values are not modelled). ok=false when an operand is not known.
func (p *pinterp) reduction(fn *ssa.Function, x *ssa.Call, name string, fr *pframe, args []pval) ([]pval, bool) {
	if len(args) == 0 || args[0].k != pShaped {
		return nil, false
	}
	sh := fr.heap.lists[args[0].j]
	if sh == nil {
		return nil, false
	}
	shape := make([]int64, len(sh))
	for i, e := range sh {
		if e.k != pInt {
			return nil, false
		}
		shape[i] = e.i
	}
	var axes []int64
	for _, a := range args[1:] {
		switch a.k {
		case pInt:
			axes = append(axes, a.i)
		case pList:
			l := fr.heap.lists[a.i]
			if l == nil {
				return nil, false
			}
			for _, e := range l {
				if e.k != pInt {
					return nil, false
				}
				axes = append(axes, e.i)
			}
		case pNil:
		default:
			return nil, false
		}
	}
	if p.onReduce != nil {
		p.onReduce(fn, x, name, shape, axes)
	}
	gone := map[int64]bool{}
	for _, a := range axes {
		if a < 0 || a >= int64(len(shape)) {
			return []pval{{k: pNil}, {k: pUnknown}}, true // gorgonia answers with an error
		}
		gone[a] = true
	}
	var out []pval
	if len(axes) > 0 {
		for i, e := range shape {
			if !gone[int64(i)] {
				out = append(out, pval{k: pInt, i: e})
			}
		}
	}
	if out == nil {
		out = []pval{}
	}
	res := pval{k: pShaped, i: args[0].i, j: fr.heap.alloc(out).i}
	if p.content && args[0].m != 0 && (name == "Max" || name == "Min") && !fr.heap.lazyT[args[0].m] {
		if vals, ok := reduceContent(shape, fr.heap.lists[args[0].m], gone, len(axes) == 0, name); ok {
			res.m = fr.heap.alloc(vals).i
		}
	}
	return []pval{res, {k: pNil}}, true
}

// reduceContent: the elements of a Max / Min / Argmax reduction over the axes in gone (all axes when all is set), in
// the row-major order of the reduced shape. Integer elements are reduced to the integer, named elements to an atom
// that names the function and the set it ranges over; Argmax (one axis) yields the position of the largest integer.
func reduceContent(shape []int64, cont []pval, gone map[int64]bool, all bool, name string) ([]pval, bool) {
	total := int64(1)
	for _, e := range shape {
		total *= e
	}
	if cont == nil || int64(len(cont)) != total {
		return nil, false
	}
	r := len(shape)
	var keep []int
	for d := 0; d < r; d++ {
		if !all && !gone[int64(d)] {
			keep = append(keep, d)
		}
	}
	nOut := int64(1)
	for _, d := range keep {
		nOut *= shape[d]
	}
	groups := make([][]pval, nOut)
	pos := make([][]int64, nOut) // position along the (single) reduced axis, for Argmax
	co := make([]int64, r)
	for f := int64(0); f < total; f++ {
		rem := f
		for d := r - 1; d >= 0; d-- {
			co[d] = rem % shape[d]
			rem /= shape[d]
		}
		o := int64(0)
		for _, d := range keep {
			o = o*shape[d] + co[d]
		}
		groups[o] = append(groups[o], cont[f])
		along := int64(0)
		for d := 0; d < r; d++ {
			if all || gone[int64(d)] {
				along = along*shape[d] + co[d]
			}
		}
		pos[o] = append(pos[o], along)
	}
	out := make([]pval, nOut)
	for o, g := range groups {
		if len(g) == 0 {
			return nil, false
		}
		allInt, allStr := true, true
		for _, e := range g {
			allInt = allInt && e.k == pInt
			allStr = allStr && e.k == pStr
		}
		switch {
		case allInt:
			best, at := g[0], pos[o][0]
			for q, e := range g[1:] {
				if (name == "Min" && e.i < best.i) || (name != "Min" && e.i > best.i) {
					best, at = e, pos[o][q+1]
				}
			}
			if name == "Argmax" {
				out[o] = pval{k: pInt, i: at, s: "int"}
			} else {
				out[o] = best
			}
		case allStr && name != "Argmax":
			var ns []string
			for _, e := range g {
				ns = append(ns, e.s)
			}
			sort.Strings(ns)
			out[o] = atomElem(name, pval{k: pStr, s: strings.Join(ns, ",")})
		default:
			return nil, false
		}
	}
	return out, true
}

var headerWriters = map[string]bool{"Reshape": true, "SetShape": true, "T": true, "UT": true, "Transpose": true}

func (p *pinterp) writesHeaders(f *ssa.Function) bool {
	if p.hdrCache == nil {
		p.hdrCache = map[*ssa.Function]bool{}
	}
	if v, ok := p.hdrCache[f]; ok {
		return v
	}
	res := false
	for g := range p.c.reachFrom([]*ssa.Function{f}) {
		for _, b := range g.Blocks {
			for _, in := range b.Instrs {
				cl, ok := in.(ssa.CallInstruction)
				if !ok {
					continue
				}
				cc := cl.Common()
				name := ""
				if cc.IsInvoke() {
					name = cc.Method.Name()
				} else if sc := cc.StaticCallee(); sc != nil {
					if fnPkgPath(sc) != pkgTensor {
						continue
					}
					name = sc.Name()
				} else {
					res = true // a call through a function value: anything
				}
				if headerWriters[name] {
					res = true
				}
			}
		}
	}
	p.hdrCache[f] = res
	return res
}

func isReductionName(n string) bool { return n == "Max" || n == "Min" || n == "Sum" }

// shapeList: the extents of input k as a list of known integers.
func (p *pinterp) shapeList(k int64) ([]pval, bool) {
	if p.rankOf == nil || p.extentOf == nil {
		return nil, false
	}
	r, ok := p.rankOf(k)
	if !ok {
		return nil, false
	}
	l := make([]pval, r)
	for i := range l {
		e, ok := p.extentOf(k, int64(i))
		if !ok {
			return nil, false
		}
		l[i] = pval{k: pInt, i: e}
	}
	return l, true
}

// zeroOf: the zero value of a type, as far as the walk represents it.
func zeroOf(t types.Type) (pval, bool) {
	switch u := t.Underlying().(type) {
	case *types.Basic:
		switch {
		case u.Info()&types.IsInteger != 0:
			return pval{k: pInt}, true
		case u.Info()&types.IsBoolean != 0:
			return pval{k: pBool}, true
		case u.Info()&types.IsString != 0:
			return pval{k: pStr}, true
		}
	case *types.Pointer, *types.Interface, *types.Slice, *types.Map, *types.Signature, *types.Chan:
		return pval{k: pNil}, true
	}
	return pval{}, false
}

func nonNilKind(k pkind) bool { return k == pNonNil || k == pObj || k == pAbs || k == pStructVal }

func (p *pinterp) traceInstr(fn *ssa.Function, fr *pframe, in ssa.Instruction, depth int) {
	if _, isDbg := in.(*ssa.DebugRef); isDbg {
		return
	}
	res := ""
	if v, ok := in.(ssa.Value); ok {
		if t, ok := fr.tuples[v]; ok {
			res = fmt.Sprintf(" => tuple %v", t)
		} else {
			res = fmt.Sprintf(" => %v", fr.env[v])
		}
		fmt.Printf("%s[%s] %s = %s%s\n", strings.Repeat("  ", depth), fn.Name(), v.Name(), in.String(), res)
		return
	}
	fmt.Printf("%s[%s] %s\n", strings.Repeat("  ", depth), fn.Name(), in.String())
}

func (p *pinterp) maxDepth() int {
	if p.objects {
		return 14
	}
	return 5
}

// globalValue: the value of a package-level variable. Variables of the library are taken from a walk of the
// package's initialiser (once); gorgonia's dtype variables are opaque tokens named after the variable.
func (p *pinterp) globalValue(g *ssa.Global) (pval, bool) {
	if v, ok := p.globals[g]; ok {
		return v, v.k != pUnknown
	}
	if g.Name() == "init$guard" {
		return pval{k: pBool, b: false}, true
	}
	if g.Pkg == nil {
		return pval{}, false
	}
	path := g.Pkg.Pkg.Path()
	if path == "io" && g.Name() == "EOF" {
		return pval{k: pAbs, i: 77001, s: "io.EOF"}, true
	}
	if p.c.isSentinelGlobal(g) {
		return pval{k: pNonNil}, true // a package-level error value made by errors.New
	}
	if path == pkgTensor {
		if n, ok := g.Type().(*types.Pointer); ok {
			if nn, ok := n.Elem().(*types.Named); ok && nn.Obj().Name() == "Dtype" {
				h := int64(0)
				for _, ch := range g.Name() {
					h = h*131 + int64(ch)
				}
				return pval{k: pAbs, i: h, s: "dtype:" + g.Name()}, true
			}
		}
		return pval{}, false
	}
	return pval{}, false
}

// initGlobals walks the initialisers of the given library packages on heap and keeps what they store into
// package-level variables.
func (p *pinterp) initGlobals(heap *pheap, paths ...string) *pheap {
	if p.globals == nil {
		p.globals = map[*ssa.Global]pval{}
	}
	p.initPkgs = map[string]bool{}
	for _, path := range paths {
		p.initPkgs[path] = true
	}
	for _, path := range paths {
		var pkg *ssa.Package
		for _, sp := range p.c.prog.AllPackages() {
			if sp.Pkg.Path() == path {
				pkg = sp
			}
		}
		if pkg == nil {
			continue
		}
		init := pkg.Func("init")
		if init == nil || len(init.Blocks) == 0 {
			continue
		}
		save, saveBudget := p.inInit, p.budget
		p.inInit, p.budget = true, 3000000
		_, h := p.run(init, nil, 0, heap)
		if h != nil {
			heap = h
		} else {
			p.initFailed = append(p.initFailed, path)
		}
		p.inInit, p.budget = save, saveBudget
	}
	return heap
}

// libStruct: a struct type declared in the library (structs of other packages, gorgonia's Dtype for one, are
// opaque tokens).
func libStruct(t types.Type) bool {
	n, ok := t.(*types.Named)
	if !ok || n.Obj().Pkg() == nil {
		return true
	}
	return isLibPkgPath(n.Obj().Pkg().Path())
}

// sliceModel: gorgonia's Tensor.Slice for slicers of step 1 with start < end (the cases gonnx's helpers use; the
// others are the known findings of C08): the sliced axes take the extent end-start, an axis sliced down to
// extent 1 is dropped (AP.S), unsliced axes (nil) stay. The slicers are heap objects with the fields start,
// end, step of ops.Slicer, read by name.
func (p *pinterp) sliceModel(fr *pframe, t pval, cc *ssa.CallCommon) ([]pval, bool) {
	sh := fr.heap.lists[t.j]
	if sh == nil || len(cc.Args) == 0 {
		return nil, false
	}
	lv := p.val(fr, cc.Args[len(cc.Args)-1])
	var sl []pval
	switch lv.k {
	case pList:
		sl = fr.heap.lists[lv.i]
		if sl == nil {
			return nil, false
		}
	case pNil:
	default:
		return nil, false
	}
	if len(sl) > len(sh) {
		return nil, false
	}
	shape := make([]int64, len(sh))
	for i, e := range sh {
		if e.k != pInt {
			return nil, false
		}
		shape[i] = e.i
	}
	type rng struct {
		lo, hi int64
		sliced bool
	}
	rs := make([]rng, len(shape))
	for i := range shape {
		rs[i] = rng{0, shape[i], false}
	}
	for i, s := range sl {
		switch s.k {
		case pNil:
		case pObj:
			o := fr.heap.objs[s.i]
			if o == nil || o.typ == nil {
				return nil, false
			}
			st, ok := o.typ.Underlying().(*types.Struct)
			if !ok {
				return nil, false
			}
			get := func(name string) (int64, bool) {
				for f := 0; f < st.NumFields(); f++ {
					if st.Field(f).Name() == name {
						v, set := o.fields[f]
						if !set {
							return 0, true
						}
						return v.i, v.k == pInt
					}
				}
				return 0, false
			}
			lo, ok1 := get("start")
			hi, ok2 := get("end")
			step, ok3 := get("step")
			if !ok1 || !ok2 || !ok3 || step != 1 {
				return nil, false
			}
			// gorgonia's CheckSlice / SliceDetails (utils.go l.201-245): start > end, start < 0 and start >= extent are
			// refused, an end beyond the extent is clamped to it
			if lo > hi || lo < 0 || lo >= shape[i] {
				return []pval{{k: pNil}, {k: pNonNil}}, true
			}
			if hi > shape[i] {
				hi = shape[i]
			}
			if hi == lo {
				return nil, false // an empty range: gorgonia turns the extent 0 into 1 (ap.go l.268); not modelled
			}
			rs[i] = rng{lo, hi, true}
		default:
			return nil, false
		}
	}
	var nshape []pval
	for i := range shape {
		e := rs[i].hi - rs[i].lo
		if rs[i].sliced && e == 1 {
			continue
		}
		nshape = append(nshape, pval{k: pInt, i: e})
	}
	{
		// gorgonia (AP.S, ap.go l.281): a view that spans one element of the backing is a scalar, whatever axes
		// were sliced - also the unsliced view of a one-element tensor
		total := int64(1)
		for i := range shape {
			total *= rs[i].hi - rs[i].lo
		}
		if total == 1 {
			nshape = nil
		}
	}
	if nshape == nil {
		nshape = []pval{}
	}
	nv := pval{k: pShaped, i: t.i, j: fr.heap.alloc(nshape).i}
	if old := fr.heap.lists[t.m]; t.m != 0 && old != nil {
		total := int64(1)
		for _, e := range shape {
			total *= e
		}
		if int64(len(old)) == total && total <= 4096 {
			strides := make([]int64, len(shape))
			acc := int64(1)
			for i := len(shape) - 1; i >= 0; i-- {
				strides[i] = acc
				acc *= shape[i]
			}
			var nc []pval
			var offs []int64
			var rec func(axis int, off int64)
			rec = func(axis int, off int64) {
				if axis == len(shape) {
					nc = append(nc, old[off])
					offs = append(offs, off)
					return
				}
				for c := rs[axis].lo; c < rs[axis].hi; c++ {
					rec(axis+1, off+c*strides[axis])
				}
			}
			rec(0, 0)
			if nc == nil {
				nc = []pval{}
			}
			nv.m = fr.heap.alloc(nc).i
			if p.content {
				// a view: its elements are the parent's (a write through either is seen through the other)
				back := make([]int64, total)
				for k := range back {
					back[k] = -1
				}
				for k, o := range offs {
					back[o] = int64(k)
				}
				if fr.heap.alias == nil {
					fr.heap.alias = map[int64][]palias{}
				}
				fr.heap.alias[nv.m] = append(append([]palias{}, fr.heap.alias[nv.m]...), palias{other: t.m, idx: offs})
				fr.heap.alias[t.m] = append(append([]palias{}, fr.heap.alias[t.m]...), palias{other: nv.m, idx: back})
			}
		}
	}
	return []pval{nv, {k: pNil}}, true
}

// pcover records which basic blocks the cells of a finite table walked. A table that passes may stand in for a
// structural rule only when it saw all the code concerned: a block no cell reaches (a separate path for large
// inputs, say) is code the table knows nothing about.
type pcover struct {
	blocks map[*ssa.BasicBlock]bool
	fns    map[*ssa.Function]bool
	roots  map[*ssa.Function]bool // the functions the table is about (concerned even when exported)
	skip   map[*ssa.Function]bool // walked, but judged by other rules (an operator's Init under a table about Apply)
	pkgs   map[string]bool        // when set: only functions of these packages are concerned
}

func newCover(roots ...*ssa.Function) *pcover {
	pc := &pcover{blocks: map[*ssa.BasicBlock]bool{}, fns: map[*ssa.Function]bool{}, roots: map[*ssa.Function]bool{}}
	for _, r := range roots {
		pc.roots[r] = true
	}
	return pc
}

func (pc *pcover) mark(fn *ssa.Function, b *ssa.BasicBlock) {
	pc.blocks[b] = true
	pc.fns[fn] = true
}

// uncovered lists the blocks of the walked library functions (hand-written code only) that no cell entered, except
// blocks that only pass on the failure of a call (entered on err != nil and ending in an error return) and blocks
// that end in a panic or cannot be reached at all.
func (pc *pcover) uncovered(c *Ctx) []string {
	var out []string
	// the code concerned: the walked functions of the library that are not part of its exported vocabulary (those
	// have contracts of their own), and the function literals inside them whether entered or not
	concerned := map[*ssa.Function]bool{}
	var addAnon func(f *ssa.Function)
	addAnon = func(f *ssa.Function) {
		for _, a := range f.AnonFuncs {
			if !concerned[a] {
				concerned[a] = true
				addAnon(a)
			}
		}
	}
	for fn := range pc.fns {
		if !(isLibFn(fn) || isControlFn(fn)) || strings.HasSuffix(c.fileOf(fn.Pos()), ".pb.go") {
			continue
		}
		exported := fn.Object() != nil && fn.Object().Exported() && fn.Signature.Recv() == nil && fn.Parent() == nil
		if (exported && !pc.roots[fn]) || pc.skip[fn] {
			continue
		}
		if pc.pkgs != nil && !pc.pkgs[fnPkgPath(fn)] {
			continue
		}
		concerned[fn] = true
		addAnon(fn)
	}
	for fn := range concerned {
		if len(fn.Blocks) > 0 && !pc.fns[fn] {
			out = append(out, "the function literal "+fname(fn)+" at "+c.pos(fn.Pos()))
			continue
		}
		for _, b := range fn.Blocks {
			if pc.blocks[b] || len(b.Instrs) == 0 || (len(b.Preds) == 0 && b != fn.Blocks[0]) || b == fn.Recover {
				continue
			}
			if _, isPanic := b.Instrs[len(b.Instrs)-1].(*ssa.Panic); isPanic {
				continue
			}
			if c.errorPassingBlock(b) {
				continue
			}
			if c.deadForEveryCaller(fn, b) {
				continue
			}
			if c.zeroExtentGuard(b) {
				continue
			}
			if unsignedBelowZero(b) {
				continue
			}
			// a block all of whose predecessors are uncovered and excused is excused as well (the tail of an error path)
			allExcused := len(b.Preds) > 0
			for _, pr := range b.Preds {
				if pc.blocks[pr] || !c.errorPassingBlock(pr) {
					allExcused = false
				}
			}
			if allExcused {
				continue
			}
			pos := fn.Pos()
			for _, in := range b.Instrs {
				if in.Pos().IsValid() {
					pos = in.Pos()
					break
				}
			}
			out = append(out, fname(fn)+" at "+c.pos(pos))
		}
	}
	sort.Strings(out)
	return out
}

// errorPassingBlock: the block is entered only on the failing edge of a nil test of an error (or of a comma-ok
// flag) and every path from it ends in an error return.
func (c *Ctx) errorPassingBlock(b *ssa.BasicBlock) bool {
	if len(b.Preds) == 1 && c.siblingNilReturn(b) {
		return true
	}
	if len(b.Preds) != 1 || !c.blockRejects(b, 0) {
		return false
	}
	pr := b.Preds[0]
	iff, ok := pr.Instrs[len(pr.Instrs)-1].(*ssa.If)
	if !ok {
		return false
	}
	cond := iff.Cond
	for {
		if u, ok := cond.(*ssa.UnOp); ok && u.Op == token.NOT {
			cond = u.X
			continue
		}
		break
	}
	if bo, ok := cond.(*ssa.BinOp); ok && (bo.Op == token.NEQ || bo.Op == token.EQL) {
		if (isNilConst(bo.X) && isErrorType(bo.Y.Type())) || (isNilConst(bo.Y) && isErrorType(bo.X.Type())) {
			return true
		}
		// the failure of a call shown by its other result being nil (f, err := get(..); if f == nil { return nil, err })
		other := bo.X
		if isNilConst(bo.X) {
			other = bo.Y
		}
		if ex, ok := other.(*ssa.Extract); ok && (isNilConst(bo.X) || isNilConst(bo.Y)) {
			if call, ok := ex.Tuple.(*ssa.Call); ok {
				if sig, ok := call.Common().Value.Type().Underlying().(*types.Signature); ok && !call.Common().IsInvoke() && errResultIndex(sig) >= 0 && errResultIndex(sig) != ex.Index {
					return true
				}
			}
		}
	}
	if ex, ok := cond.(*ssa.Extract); ok {
		// the ok of a type assertion / map lookup made by the code itself
		switch ex.Tuple.(type) {
		case *ssa.TypeAssert:
			return true
		}
	}
	return false
}

func sameInts(a, b []pval) bool {
	if len(a) != len(b) {
		return false
	}
	for i := range a {
		if a[i].k != pInt || b[i].k != pInt || a[i].i != b[i].i {
			return false
		}
	}
	return true
}

// combineElems: element expressions are sums of products of leaf names, kept sorted ("w1*x3+w2*x4"); "0" is zero.
func combineElems(op string, a, b pval) pval {
	// numeric constants among named elements take the names of the float constants
	nm := func(v pval) pval {
		switch v.k {
		case pInt:
			if v.i == 0 {
				return pval{k: pStr, s: "0"}
			}
			return pval{k: pStr, s: fmt.Sprintf("f%d", v.i)}
		case pFloat:
			if v.s == "0" {
				return pval{k: pStr, s: "0"}
			}
			return pval{k: pStr, s: "f" + v.s}
		}
		return v
	}
	a, b = nm(a), nm(b)
	if a.k != pStr || b.k != pStr {
		return pval{k: pPoison}
	}
	terms := func(s string) []string {
		if s == "0" || s == "" {
			return nil
		}
		return strings.Split(s, "+")
	}
	join := func(t []string) pval {
		if len(t) == 0 {
			return pval{k: pStr, s: "0"}
		}
		sort.Strings(t)
		return pval{k: pStr, s: strings.Join(t, "+")}
	}
	// a term is an optional sign and a product of sorted factors; the factor f1 (the float constant one) is dropped
	split := func(term string) (neg bool, factors []string) {
		for strings.HasPrefix(term, "-") {
			neg, term = !neg, term[1:]
		}
		for _, f := range strings.Split(term, "*") {
			for strings.HasPrefix(f, "-") {
				neg, f = !neg, f[1:]
			}
			if f != "f1" && f != "" {
				factors = append(factors, f)
			}
		}
		return neg, factors
	}
	build := func(neg bool, factors []string) string {
		if len(factors) == 0 {
			factors = []string{"f1"}
		}
		sort.Strings(factors)
		t := strings.Join(factors, "*")
		if neg {
			t = "-" + t
		}
		return t
	}
	norm := func(ts []string) []string {
		out := make([]string, 0, len(ts))
		for _, x := range ts {
			n, f := split(x)
			out = append(out, build(n, f))
		}
		return out
	}
	switch op {
	case "Add":
		return join(norm(append(append([]string{}, terms(a.s)...), terms(b.s)...)))
	case "Sub":
		t := norm(terms(a.s))
		for _, x := range terms(b.s) {
			n, f := split(x)
			t = append(t, build(!n, f))
		}
		return join(t)
	case "Mul":
		var t []string
		for _, x := range terms(a.s) {
			nx, fx := split(x)
			for _, y := range terms(b.s) {
				ny, fy := split(y)
				t = append(t, build(nx != ny, append(append([]string{}, fx...), fy...)))
			}
		}
		return join(t)
	}
	return pval{k: pPoison}
}

// atomElem: the application of a named function to an element expression, as an opaque element name (a hash of the
// canonical argument, so that equal arguments give equal atoms and the name holds no '+' or '*'). atomText renders
// atoms back for messages.
var atomInner = map[string]string{}

func atomElem(fn string, arg pval) pval {
	if arg.k != pStr {
		return pval{k: pPoison}
	}
	h := fnv.New64a()
	h.Write([]byte(arg.s))
	name := fmt.Sprintf("%s{%x}", fn, h.Sum64())
	atomInner[name] = arg.s
	return pval{k: pStr, s: name}
}

func atomText(s string, depth int) string {
	if depth > 3 {
		return s
	}
	for name, inner := range atomInner {
		if strings.Contains(s, name) {
			fn := name[:strings.Index(name, "{")]
			s = strings.ReplaceAll(s, name, fn+"("+atomText(inner, depth+1)+")")
		}
	}
	return s
}

// concatContent: tensor.Concat(axis, t, ts...) for tensors with known shape and content: shapes agree off the axis.
func (p *pinterp) concatContent(fr *pframe, ax, first, rest pval) ([]pval, bool) {
	if ax.k != pInt || first.k != pShaped || first.m == 0 {
		return nil, false
	}
	ts := []pval{first}
	switch rest.k {
	case pList:
		l := fr.heap.lists[rest.i]
		if l == nil {
			return nil, false
		}
		ts = append(ts, l...)
	case pNil:
	default:
		return nil, false
	}
	type tinfo struct {
		shape []int64
		cont  []pval
	}
	var infos []tinfo
	for _, t := range ts {
		if t.k != pShaped || t.m == 0 {
			return nil, false
		}
		shl, cont := fr.heap.lists[t.j], fr.heap.lists[t.m]
		if shl == nil || cont == nil {
			return nil, false
		}
		sh := make([]int64, len(shl))
		for i, e := range shl {
			if e.k != pInt {
				return nil, false
			}
			sh[i] = e.i
		}
		infos = append(infos, tinfo{sh, cont})
	}
	rank := len(infos[0].shape)
	if ax.i < 0 || ax.i >= int64(rank) {
		return nil, false // the axis refusals are modelled by the caller
	}
	outShape := append([]int64{}, infos[0].shape...)
	for _, in := range infos[1:] {
		if len(in.shape) != rank {
			return []pval{{k: pNil}, {k: pNonNil}}, true
		}
		for d := range in.shape {
			if int64(d) != ax.i && in.shape[d] != outShape[d] {
				return []pval{{k: pNil}, {k: pNonNil}}, true
			}
		}
		outShape[ax.i] += in.shape[ax.i]
	}
	outer, inner := int64(1), int64(1)
	for d := 0; d < int(ax.i); d++ {
		outer *= outShape[d]
	}
	for d := int(ax.i) + 1; d < rank; d++ {
		inner *= outShape[d]
	}
	var cont []pval
	for o := int64(0); o < outer; o++ {
		for _, in := range infos {
			n := in.shape[ax.i] * inner
			if int64(len(in.cont)) < (o+1)*n {
				return nil, false
			}
			cont = append(cont, in.cont[o*n:(o+1)*n]...)
		}
	}
	if cont == nil {
		cont = []pval{}
	}
	shl := make([]pval, rank)
	for i, e := range outShape {
		shl[i] = pval{k: pInt, i: e}
	}
	return []pval{{k: pShaped, i: first.i, j: fr.heap.alloc(shl).i, m: fr.heap.alloc(cont).i}, {k: pNil}}, true
}

// mathOnTokens: math.F(token[, ...]) is the token with F appended to its trail; further operands (tokens or
// constants) are part of the name.
func mathOnTokens(f *ssa.Function, arg func(i int) pval, n int) (pval, bool) {
	if n == 0 || f.Signature.Results().Len() != 1 {
		return pval{}, false
	}
	a0 := arg(0)
	if a0.k != pTok {
		return pval{}, false
	}
	name := "math." + f.Name()
	for i := 1; i < n; i++ {
		switch a := arg(i); a.k {
		case pTok:
			name += fmt.Sprintf("(,tok%d%s)", a.i, a.s)
		case pInt:
			name += fmt.Sprintf("(,%d)", a.i)
		case pFloat:
			name += "(," + a.s + ")"
		default:
			return pval{}, false
		}
	}
	return pval{k: pTok, i: a0.i, s: a0.s + "|" + name}, true
}

func isFloatType(t types.Type) bool {
	b, ok := t.Underlying().(*types.Basic)
	return ok && b.Info()&types.IsFloat != 0
}

// deadForEveryCaller: the block of an unexported function cannot be entered whatever the library's callers pass: one
// of the function's parameters receives only integer constants (directly, or through a parameter of an unexported
// caller that does), and for each of those constants the tests of that parameter against constants lead past the
// block (the fall-through after a switch over an unexported enumeration that names all its values). Closed world:
// an unexported function has no callers outside the library, and every call found must be a static one.
func (c *Ctx) deadForEveryCaller(fn *ssa.Function, b *ssa.BasicBlock) bool {
	if fn == nil || fn.Parent() != nil || fn.Object() == nil || fn.Object().Exported() {
		return false
	}
	for k, prm := range fn.Params {
		set, ok := c.constArgSet(fn, k, 0)
		if !ok || len(set) == 0 || len(set) > 16 {
			continue
		}
		dead := true
		for v := range set {
			if reachableWith(fn, prm, v)[b] {
				dead = false
				break
			}
		}
		if dead {
			return true
		}
	}
	return false
}

// constArgSet: the integer constants parameter k of the unexported function fn can receive.
func (c *Ctx) constArgSet(fn *ssa.Function, k int, depth int) (map[int64]bool, bool) {
	if depth > 3 || fn.Object() == nil || fn.Object().Exported() || fn.Parent() != nil {
		return nil, false
	}
	node := c.cg.Nodes[fn]
	if node == nil || len(node.In) == 0 {
		return nil, false
	}
	// the function must not be used as a value anywhere in the library
	for _, g := range c.libFns {
		for _, blk := range g.Blocks {
			for _, in := range blk.Instrs {
				if _, isDbg := in.(*ssa.DebugRef); isDbg {
					continue
				}
				for _, op := range in.Operands(nil) {
					if *op == ssa.Value(fn) {
						if cl, isCall := in.(ssa.CallInstruction); !isCall || cl.Common().Value != ssa.Value(fn) {
							return nil, false
						}
					}
				}
				if mc, isMC := in.(*ssa.MakeClosure); isMC && mc.Fn == ssa.Value(fn) {
					return nil, false
				}
			}
		}
	}
	out := map[int64]bool{}
	for _, e := range node.In {
		if e.Caller != nil && e.Caller.Func != nil && e.Caller.Func.Synthetic != "" {
			// the pointer-receiver wrapper of a value method and the like: harmless as long as nothing calls it
			live := false
			for _, e2 := range e.Caller.In {
				if e2.Caller != nil && e2.Caller.Func != nil && e2.Caller.Func.Synthetic == "" {
					live = true
				}
			}
			if live {
				return nil, false
			}
			continue
		}
		if e.Site == nil || e.Site.Common().IsInvoke() || e.Site.Common().StaticCallee() != fn {
			return nil, false
		}
		if _, isGo := e.Site.(*ssa.Go); isGo {
			return nil, false
		}
		args := e.Site.Common().Args
		if k >= len(args) {
			return nil, false
		}
		switch a := args[k].(type) {
		case *ssa.Const:
			if a.Value == nil || a.Value.Kind() != constant.Int {
				return nil, false
			}
			n, exact := constant.Int64Val(a.Value)
			if !exact {
				return nil, false
			}
			out[n] = true
		case *ssa.Parameter:
			caller := a.Parent()
			idx := -1
			for i, q := range caller.Params {
				if q == a {
					idx = i
				}
			}
			if idx < 0 || caller == fn {
				return nil, false
			}
			sub, ok := c.constArgSet(caller, idx, depth+1)
			if !ok {
				return nil, false
			}
			for n := range sub {
				out[n] = true
			}
		default:
			return nil, false
		}
	}
	return out, true
}

// reachableWith: the blocks of fn reachable from its entry when parameter prm holds the integer v; only tests of prm
// against integer constants are decided, every other branch is taken both ways.
func reachableWith(fn *ssa.Function, prm *ssa.Parameter, v int64) map[*ssa.BasicBlock]bool {
	seen := map[*ssa.BasicBlock]bool{}
	var visit func(b *ssa.BasicBlock)
	visit = func(b *ssa.BasicBlock) {
		if seen[b] {
			return
		}
		seen[b] = true
		if len(b.Instrs) > 0 {
			if iff, ok := b.Instrs[len(b.Instrs)-1].(*ssa.If); ok {
				if bo, ok := iff.Cond.(*ssa.BinOp); ok {
					var k *ssa.Const
					switch {
					case bo.X == ssa.Value(prm):
						k, _ = bo.Y.(*ssa.Const)
					case bo.Y == ssa.Value(prm):
						k, _ = bo.X.(*ssa.Const)
					}
					if k != nil && k.Value != nil && k.Value.Kind() == constant.Int && (bo.Op == token.EQL || bo.Op == token.NEQ) {
						if n, exact := constant.Int64Val(k.Value); exact {
							if (n == v) == (bo.Op == token.EQL) {
								visit(b.Succs[0])
							} else {
								visit(b.Succs[1])
							}
							return
						}
					}
				}
			}
		}
		for _, s := range b.Succs {
			visit(s)
		}
	}
	if len(fn.Blocks) > 0 {
		visit(fn.Blocks[0])
	}
	return seen
}

// siblingNilReturn: the block is entered when a non-error result of a call is nil and does nothing but return that
// call's error result (f, err := get(..); if f == nil { return nil, err }).
func (c *Ctx) siblingNilReturn(b *ssa.BasicBlock) bool {
	pr := b.Preds[0]
	if len(pr.Instrs) == 0 || len(b.Instrs) == 0 {
		return false
	}
	for _, in := range b.Instrs[:len(b.Instrs)-1] {
		if _, dbg := in.(*ssa.DebugRef); !dbg {
			return false
		}
	}
	iff, ok := pr.Instrs[len(pr.Instrs)-1].(*ssa.If)
	ret, ok2 := b.Instrs[len(b.Instrs)-1].(*ssa.Return)
	if !ok || !ok2 {
		return false
	}
	bo, ok := iff.Cond.(*ssa.BinOp)
	if !ok || !(bo.Op == token.EQL || bo.Op == token.NEQ) {
		return false
	}
	// the block must sit on the "is nil" edge
	if (bo.Op == token.EQL) != (pr.Succs[0] == b) {
		return false
	}
	other := bo.X
	if isNilConst(bo.X) {
		other = bo.Y
	} else if !isNilConst(bo.Y) {
		return false
	}
	ex, ok := other.(*ssa.Extract)
	if !ok {
		return false
	}
	call, ok := ex.Tuple.(*ssa.Call)
	if !ok || call.Common().IsInvoke() {
		return false
	}
	sig, ok := call.Common().Value.Type().Underlying().(*types.Signature)
	if !ok {
		return false
	}
	ei := errResultIndex(sig)
	if ei < 0 || ei == ex.Index {
		return false
	}
	for _, r := range ret.Results {
		if e2, ok := r.(*ssa.Extract); ok && e2.Tuple == ex.Tuple && e2.Index == ei {
			return true
		}
	}
	return false
}

// zeroExtentGuard: the block is entered only when an extent of a tensor's shape (t.Shape()[k]) is zero or negative.
// Every property quantifies over extents of at least one, and no table cell has an empty tensor: such a block is
// outside what the tables speak about, not a path they failed to enter.
func (c *Ctx) zeroExtentGuard(b *ssa.BasicBlock) bool {
	if len(b.Preds) != 1 {
		return false
	}
	pr := b.Preds[0]
	if len(pr.Instrs) == 0 {
		return false
	}
	iff, ok := pr.Instrs[len(pr.Instrs)-1].(*ssa.If)
	if !ok {
		return false
	}
	bo, ok := iff.Cond.(*ssa.BinOp)
	if !ok {
		return false
	}
	onTrue := pr.Succs[0] == b
	isExtent := func(v ssa.Value) bool {
		v = stripConv(v)
		ld, ok := v.(*ssa.UnOp)
		if !ok || ld.Op != token.MUL {
			return false
		}
		ia, ok := ld.X.(*ssa.IndexAddr)
		if !ok {
			return false
		}
		base := stripConv(ia.X)
		cl, ok := base.(*ssa.Call)
		if !ok {
			return false
		}
		name, _ := tensorMethod(cl)
		return name == "Shape"
	}
	k := func(v ssa.Value) (int64, bool) { return constInt(v) }
	// v <op> const on the edge into b implies v <= 0
	if isExtent(bo.X) {
		if n, ok := k(bo.Y); ok {
			switch {
			case bo.Op == token.EQL && n == 0 && onTrue, bo.Op == token.NEQ && n == 0 && !onTrue,
				bo.Op == token.LSS && n == 1 && onTrue, bo.Op == token.LEQ && n == 0 && onTrue,
				bo.Op == token.GEQ && n == 1 && !onTrue, bo.Op == token.GTR && n == 0 && !onTrue:
				return true
			}
		}
	}
	if isExtent(bo.Y) {
		if n, ok := k(bo.X); ok {
			switch {
			case bo.Op == token.EQL && n == 0 && onTrue, bo.Op == token.NEQ && n == 0 && !onTrue,
				bo.Op == token.GTR && n == 1 && onTrue, bo.Op == token.GEQ && n == 0 && onTrue,
				bo.Op == token.LEQ && n == 1 && !onTrue, bo.Op == token.LSS && n == 0 && !onTrue:
				return true
			}
		}
	}
	return false
}

// smallIntFloat: the exact string of a floating point constant that is an integer of small magnitude.
func smallIntFloat(s string) bool {
	r, ok := new(big.Rat).SetString(s)
	return ok && r.IsInt() && r.Num().IsInt64() && r.Num().Int64() > -(1<<20) && r.Num().Int64() < 1<<20
}

// floatText: the exact text of a numeric constant (an untyped integer constant converted to a float type shows up as
// an integer).
func floatText(v pval) string {
	if v.k == pInt {
		return fmt.Sprint(v.i)
	}
	return v.s
}

// unsignedBelowZero: the block is entered only when a value of an unsigned type is below zero (an instance of a
// generic kernel for an unsigned element type): no input enters it.
func unsignedBelowZero(b *ssa.BasicBlock) bool {
	if len(b.Preds) != 1 {
		return false
	}
	pr := b.Preds[0]
	if len(pr.Instrs) == 0 {
		return false
	}
	iff, ok := pr.Instrs[len(pr.Instrs)-1].(*ssa.If)
	if !ok {
		return false
	}
	bo, ok := iff.Cond.(*ssa.BinOp)
	if !ok {
		return false
	}
	bt, ok := bo.X.Type().Underlying().(*types.Basic)
	if !ok || bt.Info()&types.IsUnsigned == 0 {
		return false
	}
	k, ok := bo.Y.(*ssa.Const)
	if !ok || k.Value == nil || constant.Sign(k.Value) != 0 {
		return false
	}
	onTrue := pr.Succs[0] == b
	return (bo.Op == token.LSS && onTrue) || (bo.Op == token.GEQ && !onTrue)
}
