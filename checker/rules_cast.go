package main

import (
	"fmt"
	"go/ast"
	"go/constant"
	"go/token"
	"go/types"
	"os"
	"sort"
	"strings"

	"golang.org/x/tools/go/ssa"
)

// R14 — Cast / Constant / ConstantOfShape tables (C11). AST + go/types evaluation.

var onnxNumeric = map[string]string{
	"FLOAT": "float32", "DOUBLE": "float64", "INT8": "int8", "INT16": "int16", "INT32": "int32", "INT64": "int64",
	"UINT8": "uint8", "UINT16": "uint16", "UINT32": "uint32", "UINT64": "uint64",
}
var onnxNonNumeric = []string{"BFLOAT16", "BOOL", "COMPLEX64", "COMPLEX128", "FLOAT16", "UNDEFINED", "STRING"}

var dtypeGo = map[string]string{
	"Float32": "float32", "Float64": "float64", "Int8": "int8", "Int16": "int16", "Int32": "int32", "Int64": "int64",
	"Uint8": "uint8", "Uint16": "uint16", "Uint32": "uint32", "Uint64": "uint64",
}

func (c *Ctx) funcDeclsOf(pkgPath string) []*ast.FuncDecl {
	var out []*ast.FuncDecl
	p := c.pkgByPath[pkgPath]
	if p == nil {
		return nil
	}
	for _, f := range p.Syntax {
		for _, d := range f.Decls {
			if fd, ok := d.(*ast.FuncDecl); ok && fd.Body != nil {
				out = append(out, fd)
			}
		}
	}
	return out
}

// returnsErrorOnly: every return in the statement list has a nil first result and a non-nil-looking error.
func returnsNilAndErr(stmts []ast.Stmt) bool {
	n := 0
	ok := true
	for _, s := range stmts {
		ast.Inspect(s, func(nd ast.Node) bool {
			if r, isR := nd.(*ast.ReturnStmt); isR {
				n++
				if len(r.Results) < 2 {
					ok = false
					return true
				}
				if id, isId := r.Results[0].(*ast.Ident); !isId || id.Name != "nil" {
					ok = false
				}
				if id, isId := r.Results[len(r.Results)-1].(*ast.Ident); isId && id.Name == "nil" {
					ok = false
				}
			}
			return true
		})
	}
	return n > 0 && ok
}

func ruleR14(c *Ctx, prop string) {
	n0 := len(c.obls)
	c.ruleR14Structural(prop)
	c.applyCastTable(n0)
}

// applyCastTable: Cast's clauses as the finite table decides them, where the structural reading reports something.
func (c *Ctx) applyCastTable(from int) {
	keyOf := func(k string) (string, bool) {
		switch {
		case strings.HasPrefix(k, "R14:target:"):
			return "target:" + strings.TrimPrefix(k, "R14:target:"), true
		case strings.HasPrefix(k, "R14:source:"):
			return "source:" + strings.TrimPrefix(k, "R14:source:"), true
		case k == "R14:cast:shape":
			return "shape", true
		case k == "R14:convert:elementwise":
			return "elementwise", true
		case k == "R14:cast:direct":
			return "direct", true
		case k == "R14:anchors":
			return "", true
		}
		return "", false
	}
	needed := false
	for _, o := range c.obls[from:] {
		if _, mine := keyOf(o.Key); mine && !o.Control && (o.Status == StViolated || o.Status == StUndecided) {
			needed = true
		}
	}
	_ = needed // the table is consulted always: a structural reading that is satisfied says nothing about a check added around it
	t := c.castTable()
	if !t.known {
		return
	}
	c.counts["R14.cast_table_cells"] = t.cells
	seen := map[string]bool{}
	for i := from; i < len(c.obls); i++ {
		o := &c.obls[i]
		tk, mine := keyOf(o.Key)
		if !mine || o.Control {
			continue
		}
		seen[tk] = true
		if o.Key == "R14:anchors" {
			if len(t.bads) == 0 {
				o.Status, o.Why = StNote, "conversion functions not found by role; Cast is decided by the finite table"
			}
			continue
		}
		if bad := t.bads[tk]; bad != "" {
			o.Status, o.Why = StViolated, bad
		} else if o.Status == StViolated || o.Status == StUndecided {
			o.Status, o.Why = StDischarged, fmt.Sprintf("by the finite Cast table (%d cells: 13 source types x 19 target codes); the structural reading does not recognise the factoring", t.cells)
		}
	}
	// what the table found and no structural obligation carries
	var ks []string
	for k := range t.bads {
		if !seen[k] {
			ks = append(ks, k)
		}
	}
	sort.Strings(ks)
	for _, k := range ks {
		c.violate("R14", "R14:"+strings.Replace(k, "elementwise", "convert:elementwise", 1), "", t.bads[k])
	}
}

func (c *Ctx) ruleR14Structural(prop string) {
	info := c.typesInfo(pkgOps)
	var convBacking, convTensor, newBacking *ast.FuncDecl
	for _, fd := range c.funcDeclsOf(pkgOps) {
		// role: generic func with a switch over a conversion to TensorProto_DataType
		hasEnumSwitch, hasDtypeSwitch := false, false
		ast.Inspect(fd.Body, func(nd ast.Node) bool {
			sw, ok := nd.(*ast.SwitchStmt)
			if !ok || sw.Tag == nil {
				return true
			}
			if tv, ok := info.Types[sw.Tag]; ok {
				if n, ok := tv.Type.(*types.Named); ok {
					switch n.Obj().Name() {
					case "TensorProto_DataType":
						hasEnumSwitch = true
					case "Dtype":
						hasDtypeSwitch = true
					}
				}
			}
			return true
		})
		if hasEnumSwitch && fd.Type.TypeParams != nil {
			convBacking = fd
		}
		if hasDtypeSwitch && fd.Type.TypeParams == nil && fd.Recv == nil && convTensor == nil && countSliceAsserts(fd) >= 5 {
			convTensor = fd
		}
		if false {
			// the one that returns (tensor.Tensor, error) and takes a tensor + int32
			if fd.Type.Params != nil && len(fd.Type.Params.List) == 2 {
				if tv, ok := info.Types[fd.Type.Results.List[0].Type]; ok && isTensorish(tv.Type) {
					if pv, ok := info.Types[fd.Type.Params.List[0].Type]; ok && isTensorish(pv.Type) {
						convTensor = fd
					}
				}
			}
		}
		if fd.Type.TypeParams != nil && fd.Type.TypeParams.NumFields() == 2 && fd.Type.Results != nil && len(fd.Type.Results.List) == 1 {
			newBacking = fd
		}
	}
	if convBacking == nil || convTensor == nil || newBacking == nil {
		c.undecided("R14", "R14:anchors", "", fmt.Sprintf("conversion functions not found by role (target switch=%v source switch=%v element converter=%v): the table rules for the missing part cannot be applied", convBacking != nil, convTensor != nil, newBacking != nil))
		c.checkCastDirect()
		c.checkConstantTables()
		return
	}
	// ---- targets: case onnx.TensorProto_X => createNewBacking[B, Go(X)]
	seenTarget := map[string]bool{}
	defaultRefuses := false
	ast.Inspect(convBacking.Body, func(nd ast.Node) bool {
		cc, ok := nd.(*ast.CaseClause)
		if !ok {
			return true
		}
		if cc.List == nil {
			defaultRefuses = returnsNilAndErr(cc.Body)
			return true
		}
		for _, e := range cc.List {
			name := ""
			switch x := e.(type) {
			case *ast.SelectorExpr:
				name = x.Sel.Name
			case *ast.Ident:
				name = x.Name
			}
			name = strings.TrimPrefix(name, "TensorProto_")
			seenTarget[name] = true
			key := "R14:target:" + name
			site := c.pos(cc.Pos())
			if want, numeric := onnxNumeric[name]; numeric {
				got := ""
				ast.Inspect(&ast.BlockStmt{List: cc.Body}, func(n2 ast.Node) bool {
					if il, ok := n2.(*ast.IndexListExpr); ok && len(il.Indices) == 2 {
						if tv, ok := info.Types[il.Indices[1]]; ok {
							got = tv.Type.String()
						}
					}
					return true
				})
				c.decide(got == want, "R14", key, site, "target "+name+" converts element-wise to "+want, fmt.Sprintf("Cast to %s produces elements of type %q instead of %s: wrong element width or signedness", name, got, want))
			} else {
				c.decide(returnsNilAndErr(cc.Body), "R14", key, site, "non-numeric target "+name+" is refused with an error", "non-numeric target "+name+" is not refused")
			}
		}
		return true
	})
	for name := range onnxNumeric {
		if !seenTarget[name] {
			c.violate("R14", "R14:target:"+name, c.pos(convBacking.Pos()), "numeric Cast target "+name+" has no case: a supported conversion is refused (or falls into another case)")
		}
	}
	c.decide(defaultRefuses, "R14", "R14:target:default", c.pos(convBacking.Pos()), "unknown target codes are refused with an error", "unknown Cast targets are not refused")

	// ---- sources: case tensor.X => backing.([]Go(X))
	seenSrc := map[string]bool{}
	srcDefault := false
	ast.Inspect(convTensor.Body, func(nd ast.Node) bool {
		cc, ok := nd.(*ast.CaseClause)
		if !ok {
			return true
		}
		if cc.List == nil {
			srcDefault = returnsNilAndErr(cc.Body)
			return true
		}
		for _, e := range cc.List {
			name, ok := dtypeIdent(info, e)
			if !ok {
				continue
			}
			seenSrc[name] = true
			want := dtypeGo[name]
			got := ""
			ast.Inspect(&ast.BlockStmt{List: cc.Body}, func(n2 ast.Node) bool {
				if ta, ok := n2.(*ast.TypeAssertExpr); ok && ta.Type != nil {
					if tv, ok := info.Types[ta.Type]; ok {
						if sl, ok := tv.Type.Underlying().(*types.Slice); ok {
							got = sl.Elem().String()
						}
					}
				}
				return true
			})
			c.decide(want != "" && got == want, "R14", "R14:source:"+name, c.pos(cc.Pos()), "source dtype "+name+" reads its backing as []"+want, fmt.Sprintf("source dtype %s is read as []%s: interface conversion panic or wrong values", name, got))
		}
		return true
	})
	for name := range dtypeGo {
		if !seenSrc[name] {
			c.violate("R14", "R14:source:"+name, c.pos(convTensor.Pos()), "numeric source dtype "+name+" has no case: Cast from it is refused")
		}
	}
	c.decide(srcDefault, "R14", "R14:source:default", c.pos(convTensor.Pos()), "non-numeric source dtypes are refused with an error", "non-numeric sources are not refused")
	// shape preserved: result built WithShape(t.Shape()...)
	shapeOK := false
	castFn := convTensor
	for _, fd := range c.funcDeclsOf(pkgOps) {
		if fd.Recv == nil && fd.Type.Params != nil && len(fd.Type.Params.List) == 2 && fd.Type.Results != nil && len(fd.Type.Results.List) == 2 {
			if tv, ok := info.Types[fd.Type.Results.List[0].Type]; ok && isTensorish(tv.Type) {
				if pv, ok := info.Types[fd.Type.Params.List[0].Type]; ok && isTensorish(pv.Type) {
					if pv2, ok := info.Types[fd.Type.Params.List[1].Type]; ok && pv2.Type.String() == "int32" {
						castFn = fd
					}
				}
			}
		}
	}
	ast.Inspect(castFn.Body, func(nd ast.Node) bool {
		call, ok := nd.(*ast.CallExpr)
		if !ok {
			return true
		}
		if sel, ok := call.Fun.(*ast.SelectorExpr); ok && sel.Sel.Name == "WithShape" && len(call.Args) == 1 && call.Ellipsis.IsValid() {
			if inner, ok := call.Args[0].(*ast.CallExpr); ok {
				if s2, ok := inner.Fun.(*ast.SelectorExpr); ok && s2.Sel.Name == "Shape" {
					if id, ok := s2.X.(*ast.Ident); ok && castFn.Type.Params.List[0].Names[0].Name == id.Name {
						shapeOK = true
					}
				}
			}
		}
		return true
	})
	c.decide(shapeOK, "R14", "R14:cast:shape", c.pos(convTensor.Pos()), "result is built WithShape(t.Shape()...) of the input", "Cast does not preserve the input's shape")

	// ---- element converter: out := make([]R, len(in)); out[i] = R(in[i])
	okConv := false
	ast.Inspect(newBacking.Body, func(nd ast.Node) bool {
		as, ok := nd.(*ast.AssignStmt)
		if !ok || len(as.Lhs) != 1 || len(as.Rhs) != 1 {
			return true
		}
		li, ok1 := as.Lhs[0].(*ast.IndexExpr)
		conv, ok2 := as.Rhs[0].(*ast.CallExpr)
		if !ok1 || !ok2 || len(conv.Args) != 1 {
			return true
		}
		ri, ok3 := conv.Args[0].(*ast.IndexExpr)
		if !ok3 {
			return true
		}
		if types.ExprString(li.Index) == types.ExprString(ri.Index) {
			if tv, ok := info.Types[conv.Fun]; ok && tv.IsType() {
				okConv = true
			}
		}
		return true
	})
	whyConv := "element converter does not convert in[i] to out[i]"
	{
		// the same fact over a finite table for every instance of the converter, whatever its loop looks like
		nKnown, nPass, wit := 0, 0, ""
		for _, f := range c.libFns {
			o := f.Origin()
			if o == nil || o.Name() != newBacking.Name.Name || fnPkgPath(o) != pkgOps || len(f.Params) != 1 {
				continue
			}
			known, pass, w := c.elementwiseTable(f, 0, func(trail string) bool { return trail == "" || onlyConversions(trail) })
			if known {
				nKnown++
				if pass {
					nPass++
				} else if wit == "" {
					wit = fname(f) + ": " + w
				}
			}
		}
		if nKnown > 0 {
			okConv = nPass == nKnown
			if !okConv {
				whyConv += ": " + wit
			}
			c.counts["R14:convert:elementwise:instances"] = nKnown
		}
	}
	c.decide(okConv, "R14", "R14:convert:elementwise", c.pos(newBacking.Pos()), "out[i] = R(in[i]): Go conversion (= C conversion) per element, same index", whyConv)

	// ---- directness: the element converter is instantiated on the source's own element type and fed
	// the asserted backing itself, not a converted copy (an intermediate float64 loses int64/uint64 bits)
	c.checkCastDirect()

	// ---- Constant
	c.checkConstantTables()
}

func (c *Ctx) checkConstantTables() {
	n0 := len(c.obls)
	c.checkConstantTablesAST()
	// the Constant operator's clauses over the finite attribute table, however Init is written
	known, bads := c.constantTable()
	if !known {
		return
	}
	seen := map[string]bool{}
	for i := n0; i < len(c.obls); i++ {
		o := &c.obls[i]
		if !strings.HasPrefix(o.Key, "R14:constant:") || o.Status == StNote {
			continue
		}
		sfx := strings.TrimPrefix(o.Key, "R14:constant:")
		var bad string
		switch {
		case sfx == "value" || sfx == "value_float" || sfx == "value_floats" || sfx == "value_int" || sfx == "value_ints" || sfx == "refusals" || sfx == "count":
			bad = bads[sfx]
			seen[sfx] = true
		case strings.HasPrefix(sfx, "list-shape"):
			bad = firstNonEmpty(bads["value_floats"], bads["value_ints"])
		default:
			continue
		}
		if bad == "" {
			if o.Status != StDischarged {
				o.Status, o.Why = StDischarged, "by the finite attribute table (the structural pattern is not recognised)"
			}
		} else {
			o.Status, o.Why = StViolated, bad
		}
	}
	for _, sfx := range []string{"value", "value_float", "value_floats", "value_int", "value_ints", "refusals", "count"} {
		if !seen[sfx] {
			oi := c.opByName("Constant")
			c.decide(bads[sfx] == "", "R14", "R14:constant:"+sfx, c.pos(oi.methods["Init"].Pos()), "by the finite attribute table", bads[sfx])
		}
	}
}

func (c *Ctx) checkConstantTablesAST() {
	info := c.typesInfo(pkgOpset13)
	var constInit, cosInit, cosApply *ast.FuncDecl
	for _, fd := range c.funcDeclsOf(pkgOpset13) {
		if fd.Recv == nil || len(fd.Recv.List) != 1 {
			continue
		}
		rt := types.ExprString(fd.Recv.List[0].Type)
		switch {
		case rt == "*Constant" && fd.Name.Name == "Init":
			constInit = fd
		case rt == "*ConstantOfShape" && fd.Name.Name == "Init":
			cosInit = fd
		case rt == "*ConstantOfShape" && fd.Name.Name == "Apply":
			cosApply = fd
		}
	}
	if constInit == nil || cosInit == nil || cosApply == nil {
		c.undecided("R14", "R14:constant:anchors", "", "Constant / ConstantOfShape methods not found")
		return
	}
	// Constant: attribute name -> getter -> element type
	want := map[string][2]string{
		"value_float":  {"GetF", "float32"},
		"value_floats": {"GetFloats", "[]float32"},
		"value_int":    {"GetI", "int64"},
		"value_ints":   {"GetInts", "[]int64"},
		"value":        {"GetT", "*" + pkgOnnx + ".TensorProto"},
	}
	refused := map[string]bool{"sparse_value": false, "value_string": false, "value_strings": false}
	explicitCase := map[string]bool{}
	seen := map[string]bool{}
	defaultRefuses := false
	ast.Inspect(constInit.Body, func(nd ast.Node) bool {
		cc, ok := nd.(*ast.CaseClause)
		if !ok {
			return true
		}
		if cc.List == nil {
			defaultRefuses = bodyReturnsErr(cc.Body)
			return true
		}
		for _, e := range cc.List {
			tv := info.Types[e]
			if tv.Value == nil || tv.Value.Kind() != constant.String {
				continue
			}
			name := constant.StringVal(tv.Value)
			seen[name] = true
			if _, isRef := refused[name]; isRef {
				explicitCase[name] = true
				refused[name] = bodyReturnsErr(cc.Body)
				continue
			}
			w, ok := want[name]
			if !ok {
				c.note("R14", "R14:constant:extra:"+name, c.pos(cc.Pos()), "additional Constant attribute "+name)
				continue
			}
			gotT := ""
			assignsValue := false
			ast.Inspect(&ast.BlockStmt{List: cc.Body}, func(n2 ast.Node) bool {
				if call, ok := n2.(*ast.CallExpr); ok {
					if sel, ok := call.Fun.(*ast.SelectorExpr); ok && sel.Sel.Name == w[0] {
						if tv, ok := info.Types[call]; ok && gotT == "" {
							gotT = tv.Type.String()
						}
					}
					// what is actually handed to the tensor constructor decides the element type
					if sel, ok := call.Fun.(*ast.SelectorExpr); ok && (sel.Sel.Name == "FromScalar" || sel.Sel.Name == "WithBacking") && len(call.Args) == 1 {
						if tv, ok := info.Types[call.Args[0]]; ok {
							gotT = tv.Type.String()
						}
					}
				}
				if as, ok := n2.(*ast.AssignStmt); ok {
					for _, l := range as.Lhs {
						if sel, ok := l.(*ast.SelectorExpr); ok && sel.Sel.Name == "value" {
							assignsValue = true
						}
					}
				}
				return true
			})
			c.decide(gotT == w[1] && assignsValue, "R14", "R14:constant:"+name, c.pos(cc.Pos()),
				"attribute "+name+" is read with "+w[0]+"() of type "+w[1]+" into the operator's value",
				fmt.Sprintf("attribute %s is not turned into a value of ONNX type (getter %s gives %q, assigned=%v)", name, w[0], gotT, assignsValue))
		}
		return true
	})
	c.checkConstantListShapes()
	c.checkCastInitAdmits()
	for name := range want {
		if !seen[name] {
			c.violate("R14", "R14:constant:"+name, c.pos(constInit.Pos()), "Constant attribute "+name+" is not handled")
		}
	}
	allRef := defaultRefuses
	for name, ok := range refused {
		if !explicitCase[name] {
			ok = defaultRefuses // no case of its own: the attribute falls into the default branch
		}
		allRef = allRef && ok
	}
	c.decide(allRef, "R14", "R14:constant:refusals", c.pos(constInit.Pos()), "sparse_value, value_string(s) and unknown attributes return an error", "an unsupported Constant attribute is not refused")
	// attribute count gate
	cnt := false
	ast.Inspect(constInit.Body, func(nd ast.Node) bool {
		if iff, ok := nd.(*ast.IfStmt); ok {
			if be, ok := iff.Cond.(*ast.BinaryExpr); ok && be.Op == token.NEQ && strings.HasPrefix(types.ExprString(be.X), "len(") && types.ExprString(be.Y) == "1" && bodyReturnsErr(iff.Body.List) {
				cnt = true
			}
		}
		return true
	})
	c.decide(cnt, "R14", "R14:constant:count", c.pos(constInit.Pos()), "exactly one attribute or an error", "Constant accepts attribute lists that do not hold exactly one value")

	// ConstantOfShape gates
	defF32, lenGate := false, false
	ast.Inspect(cosInit.Body, func(nd ast.Node) bool {
		if call, ok := nd.(*ast.CallExpr); ok {
			if sel, ok := call.Fun.(*ast.SelectorExpr); ok && sel.Sel.Name == "FromScalar" && len(call.Args) == 1 {
				if tv, ok := info.Types[call.Args[0]]; ok && tv.Type.String() == "float32" && tv.Value != nil && constant.Sign(tv.Value) == 0 {
					defF32 = true
				}
			}
		}
		if iff, ok := nd.(*ast.IfStmt); ok {
			if be, ok := iff.Cond.(*ast.BinaryExpr); ok && be.Op == token.NEQ && strings.Contains(types.ExprString(be.X), "Len()") && types.ExprString(be.Y) == "1" && bodyReturnsErr(iff.Body.List) {
				lenGate = true
			}
		}
		return true
	})
	if !defF32 || !lenGate {
		// however Init is factored: walked for a node without attributes, with a value of one and of two elements
		if known, d, l := c.cosInitTable(); known {
			defF32, lenGate = defF32 || d, lenGate || l
		}
	}
	c.decide(defF32, "R14", "R14:cos:default", c.pos(cosInit.Pos()), "default value is float32(0)", "ConstantOfShape's default value is not float32 zero")
	c.decide(lenGate, "R14", "R14:cos:one-element", c.pos(cosInit.Pos()), "a value tensor with other than one element is refused", "ConstantOfShape accepts value tensors with more than one element")
	posGate, dtypeFrom := false, false
	ast.Inspect(cosApply.Body, func(nd ast.Node) bool {
		if iff, ok := nd.(*ast.IfStmt); ok {
			if be, ok := iff.Cond.(*ast.BinaryExpr); ok && (be.Op == token.LEQ || be.Op == token.LSS) && bodyReturnsErr(iff.Body.List) {
				posGate = true
			}
		}
		if call, ok := nd.(*ast.CallExpr); ok {
			if sel, ok := call.Fun.(*ast.SelectorExpr); ok && sel.Sel.Name == "Of" && len(call.Args) == 1 && strings.HasSuffix(types.ExprString(call.Args[0]), "value.Dtype()") {
				dtypeFrom = true
			}
		}
		return true
	})
	if !posGate {
		// however the test is written: Apply walked with shape lists that hold a non-positive extent
		if oi := c.opByName("ConstantOfShape"); oi != nil && oi.methods["Apply"] != nil {
			if known, ok := c.cosPositiveDimsTable(oi.methods["Apply"]); known {
				posGate = ok
			}
		}
	}
	c.decide(posGate, "R14", "R14:cos:positive-dims", c.pos(cosApply.Pos()), "non-positive extents are refused", "ConstantOfShape builds tensors with non-positive extents (panic in gorgonia)")
	// the fill: every element is the value - the audited form is zeros + AddScalar(value) of gorgonia (a hand-written
	// fill loop has to get every element, for every element count and type)
	if oi := c.opByName("ConstantOfShape"); oi != nil && oi.methods["Apply"] != nil {
		t := c.applyTerm(oi.methods["Apply"])
		if !strings.HasPrefix(t, "AddScalar(New(") {
			saved := c.termInline
			c.termInline, c.termMemo = true, nil
			t = c.applyTerm(oi.methods["Apply"])
			c.termInline, c.termMemo = saved, nil
		}
		// (in place or not: the receiver is the zero tensor this call has just built)
		okFill := strings.HasPrefix(t, "AddScalar(New(") && (strings.Contains(t, "),.value,true)") || strings.HasSuffix(t, "),.value,true,UseUnsafe())")) && !strings.Contains(t, "WithBacking")
		c.decide(okFill, "R14", "R14:cos:fill", c.pos(oi.methods["Apply"].Pos()), "the result is a new zero tensor of the requested shape plus the value (gorgonia's AddScalar): every element is the value",
			"ConstantOfShape's result is not New(shape, type of value).AddScalar(value): "+t+" - whether every element becomes the value cannot be established")
	}
	if !dtypeFrom {
		// the same fact on the resolved program: tensor.Of receives Dtype() of the receiver's value field, in Apply
		// itself or in a helper that is handed that field
		if oi := c.opByName("ConstantOfShape"); oi != nil && oi.methods["Apply"] != nil {
			dtypeFrom = c.ofDtypeOfRecvField(oi.methods["Apply"], "value") || c.ofMirrorOfValueDtype(oi, "value")
		}
	}
	c.decide(dtypeFrom, "R14", "R14:cos:dtype", c.pos(cosApply.Pos()), "result element type is taken from the value tensor", "ConstantOfShape's result type is not the value's type")
}

func countSliceAsserts(fd *ast.FuncDecl) int {
	n := 0
	ast.Inspect(fd.Body, func(nd ast.Node) bool {
		if ta, ok := nd.(*ast.TypeAssertExpr); ok && ta.Type != nil {
			if _, isArr := ta.Type.(*ast.ArrayType); isArr {
				n++
			}
		}
		return true
	})
	return n
}

func bodyReturnsErr(stmts []ast.Stmt) bool {
	n, ok := 0, true
	for _, s := range stmts {
		ast.Inspect(s, func(nd ast.Node) bool {
			if r, isR := nd.(*ast.ReturnStmt); isR {
				n++
				last := r.Results[len(r.Results)-1]
				if id, isId := last.(*ast.Ident); isId && id.Name == "nil" {
					ok = false
				}
			}
			return true
		})
	}
	return n > 0 && ok
}

var _ = ssa.Value(nil)

// checkCastDirect: every call of an instance of the two-parameter generic element converter reachable
// from Cast.Apply receives a slice that IS the input's asserted backing (alias flow through
// parameters/returns only), and its first type argument is that slice's element type.
func (c *Ctx) checkCastDirect() {
	oi := c.opByName("Cast")
	if oi == nil {
		c.undecided("R14", "R14:cast:direct", "", "Cast operator not found")
		return
	}
	reach := c.reachFrom([]*ssa.Function{oi.methods["Apply"]})
	// alias roots: results of type assertions to slice types on Data()-derived values
	alias := map[ssa.Value]bool{}
	for f := range reach {
		for _, b := range f.Blocks {
			for _, in := range b.Instrs {
				if ta, ok := in.(*ssa.TypeAssert); ok {
					if _, isSl := ta.AssertedType.Underlying().(*types.Slice); isSl {
						alias[ta] = true
					}
				}
			}
		}
	}
	for changed := true; changed; {
		changed = false
		mark := func(v ssa.Value) {
			if v != nil && !alias[v] {
				alias[v] = true
				changed = true
			}
		}
		for f := range reach {
			for _, b := range f.Blocks {
				for _, in := range b.Instrs {
					switch x := in.(type) {
					case *ssa.Extract:
						if alias[x.Tuple] && x.Index == 0 {
							mark(x)
						}
					case *ssa.Phi:
						for _, e := range x.Edges {
							if alias[e] {
								mark(x)
							}
						}
					case *ssa.ChangeType:
						if alias[x.X] {
							mark(x)
						}
					case *ssa.Call:
						if sc := x.Common().StaticCallee(); sc != nil && reach[sc] {
							for i, a := range x.Common().Args {
								if alias[a] && i < len(sc.Params) {
									mark(sc.Params[i])
								}
							}
						}
					}
				}
			}
		}
	}
	n, bad, badSite := 0, "", ""
	for f := range reach {
		for _, b := range f.Blocks {
			for _, in := range b.Instrs {
				call, ok := in.(*ssa.Call)
				if !ok {
					continue
				}
				sc := call.Common().StaticCallee()
				if sc == nil || sc.Origin() == nil || len(sc.TypeArgs()) != 2 || !isLibFn(sc) || len(call.Common().Args) != 1 {
					continue
				}
				n++
				arg := call.Common().Args[0]
				if !alias[arg] {
					bad = "the element converter " + sc.Name() + " is fed a slice that is not the input tensor's own backing (a converted copy): values pass through an intermediate element type before the target conversion, which is not exact for every 64-bit integer"
					badSite = c.pos(call.Pos())
				}
			}
		}
	}
	c.counts["R14.converter_calls"] = n
	if n == 0 {
		c.undecided("R14", "R14:cast:direct", c.pos(oi.methods["Apply"].Pos()), "no call of a two-type-parameter element converter reachable from Cast.Apply: unrecognised factoring")
		return
	}
	c.decide(bad == "", "R14", "R14:cast:direct", firstNonEmpty(badSite, c.pos(oi.methods["Apply"].Pos())), fmt.Sprintf("%d converter instantiations, each applied directly to the asserted backing of the input", n), bad)
}

// checkConstantListShapes: in Constant.Init every tensor backed by a Go slice taken from the attribute
// (value_floats, value_ints) states its 1-D shape explicitly as WithShape(len(that slice)): gorgonia
// gives a one-element backing the scalar shape () when no shape is given, so [x] would come out rank 0.
func (c *Ctx) checkConstantListShapes() {
	oi := c.opByName("Constant")
	if oi == nil || oi.methods["Init"] == nil {
		return
	}
	init := oi.methods["Init"]
	n := 0
	for _, b := range init.Blocks {
		for _, in := range b.Instrs {
			nw, ok := in.(*ssa.Call)
			if !ok {
				continue
			}
			sc := nw.Common().StaticCallee()
			if sc == nil || sc.Name() != "New" || fnPkgPath(sc) != pkgTensor || len(nw.Common().Args) != 1 {
				continue
			}
			backing, shape := "", ""
			for _, opt := range varargElems(nw.Common().Args[0]) {
				oc, ok := opt.(*ssa.Call)
				if !ok || oc.Common().StaticCallee() == nil {
					continue
				}
				switch oc.Common().StaticCallee().Name() {
				case "WithBacking":
					a := unwrapConvKeepIface(oc.Common().Args[0])
					if mi, ok := a.(*ssa.MakeInterface); ok {
						a = mi.X
					}
					if _, isSlice := a.Type().Underlying().(*types.Slice); isSlice {
						backing = c.term(a, 0)
					}
				case "WithShape":
					els := varargElems(oc.Common().Args[0])
					if len(els) == 1 {
						if lc, ok := els[0].(*ssa.Call); ok {
							if bi, ok := lc.Common().Value.(*ssa.Builtin); ok && bi.Name() == "len" {
								shape = c.term(lc.Common().Args[0], 0)
							}
						}
					}
				}
			}
			if backing == "" {
				continue
			}
			n++
			c.decide(backing == shape, "R14", fmt.Sprintf("R14:constant:list-shape#%d", n), c.pos(nw.Pos()),
				"the list becomes a 1-D tensor of explicit shape (len(list))",
				fmt.Sprintf("a tensor backed by the attribute list %s is not given the shape (len(list)) (shape taken from %q): gorgonia gives a one-element backing the scalar shape (), so [x] comes out as a rank-0 tensor", backing, shape))
		}
	}
	if n < 2 {
		c.undecided("R14", "R14:constant:list-shape:floor", c.pos(init.Pos()), fmt.Sprintf("%d list-backed tensors found in Constant.Init (floor 2: value_floats, value_ints)", n))
	}
}

// ---- R14:cast:init-admits-numeric ---------------------------------------------------------------------
//
// Cast.Init must not refuse one of the ten numeric targets. A refusal in Init that depends on the value of `to`
// (a predicate such as ops.IsConvertibleDtype(to), or comparisons with enum constants) is evaluated for the
// ten codes: the predicate is a pure function of comparisons between `to` and constants, i.e. a finite table.
func (c *Ctx) checkCastInitAdmits() {
	oi := c.opByName("Cast")
	if oi == nil || oi.methods["Init"] == nil {
		return
	}
	init := oi.methods["Init"]
	key := "R14:cast:init-admits-numeric"
	numeric := []int64{1, 2, 3, 4, 5, 6, 7, 11, 12, 13}
	names := map[int64]string{1: "FLOAT", 2: "UINT8", 3: "INT8", 4: "UINT16", 5: "INT16", 6: "INT32", 7: "INT64", 11: "DOUBLE", 12: "UINT32", 13: "UINT64"}
	// values derived from attr.GetI()
	isTo := func(v ssa.Value) bool {
		v = stripConv(v)
		cl, ok := v.(*ssa.Call)
		if !ok {
			return false
		}
		if f := cl.Common().StaticCallee(); f != nil {
			return f.Name() == "GetI"
		}
		return cl.Common().IsInvoke() && cl.Common().Method.Name() == "GetI"
	}
	var refused []string
	n := 0
	for _, b := range init.Blocks {
		iff, ok := b.Instrs[len(b.Instrs)-1].(*ssa.If)
		if !ok {
			continue
		}
		cond := iff.Cond
		neg := false
		for {
			if u, isU := cond.(*ssa.UnOp); isU && u.Op == token.NOT {
				cond, neg = u.X, !neg
				continue
			}
			break
		}
		var eval func(k int64) (bool, bool)
		switch x := cond.(type) {
		case *ssa.Call:
			f := x.Common().StaticCallee()
			if f == nil || !isLibFn(f) || len(x.Common().Args) != 1 || !isTo(x.Common().Args[0]) {
				continue
			}
			eval = func(k int64) (bool, bool) { return evalIntPred(f, k) }
		case *ssa.BinOp:
			var cst ssa.Value
			toLeft := false
			if isTo(x.X) {
				cst, toLeft = x.Y, true
			} else if isTo(x.Y) {
				cst = x.X
			} else {
				continue
			}
			kc, okc := constInt(cst)
			if !okc {
				continue
			}
			eval = func(k int64) (bool, bool) {
				a, bb := k, kc
				if !toLeft {
					a, bb = kc, k
				}
				return cmpInt(x.Op, a, bb)
			}
		default:
			continue
		}
		n++
		for _, k := range numeric {
			r, okE := eval(k)
			if !okE {
				c.undecided("R14", key, c.pos(iff.Pos()), "a refusal in Cast.Init depends on the value of `to` through a predicate that cannot be evaluated as a table of comparisons")
				return
			}
			if neg {
				r = !r
			}
			// which edge is taken for this code, and does it refuse?
			if c.edgeRejects(iff, r) {
				refused = append(refused, names[k])
			}
		}
	}
	sort.Strings(refused)
	c.decide(len(refused) == 0, "R14", key, c.pos(init.Pos()),
		fmt.Sprintf("no value-dependent refusal in Cast.Init excludes a numeric target (%d predicates evaluated over the 10 codes)", n),
		"Cast.Init refuses the numeric target(s) "+strings.Join(refused, ", ")+" although the converter supports all ten: a valid model is rejected at load")
}

func cmpInt(op token.Token, a, b int64) (bool, bool) {
	switch op {
	case token.EQL:
		return a == b, true
	case token.NEQ:
		return a != b, true
	case token.LSS:
		return a < b, true
	case token.LEQ:
		return a <= b, true
	case token.GTR:
		return a > b, true
	case token.GEQ:
		return a >= b, true
	}
	return false, false
}

// evalIntPred evaluates a pure predicate func(x intlike) bool that only compares x (through conversions) with
// constants and combines the results with && || ! — the finite table such a predicate denotes.
func evalIntPred(fn *ssa.Function, k int64) (bool, bool) {
	if len(fn.Params) != 1 || len(fn.Blocks) == 0 {
		return false, false
	}
	ints := map[ssa.Value]int64{fn.Params[0]: k}
	bools := map[ssa.Value]bool{}
	intOf := func(v ssa.Value) (int64, bool) {
		if c, ok := constInt(v); ok {
			return c, true
		}
		x, ok := ints[v]
		return x, ok
	}
	boolOf := func(v ssa.Value) (bool, bool) {
		if c, ok := v.(*ssa.Const); ok && c.Value != nil && c.Value.Kind() == constant.Bool {
			return constant.BoolVal(c.Value), true
		}
		x, ok := bools[v]
		return x, ok
	}
	blk := fn.Blocks[0]
	var prev *ssa.BasicBlock
	for steps := 0; steps < 64; steps++ {
		for _, in := range blk.Instrs {
			switch x := in.(type) {
			case *ssa.DebugRef:
			case *ssa.Convert:
				if v, ok := intOf(x.X); ok {
					ints[x] = v
				} else {
					return false, false
				}
			case *ssa.ChangeType:
				if v, ok := intOf(x.X); ok {
					ints[x] = v
				} else {
					return false, false
				}
			case *ssa.Phi:
				for i, p := range blk.Preds {
					if p != prev {
						continue
					}
					if v, ok := boolOf(x.Edges[i]); ok {
						bools[x] = v
					} else if v, ok := intOf(x.Edges[i]); ok {
						ints[x] = v
					} else {
						return false, false
					}
				}
			case *ssa.UnOp:
				if x.Op != token.NOT {
					return false, false
				}
				v, ok := boolOf(x.X)
				if !ok {
					return false, false
				}
				bools[x] = !v
			case *ssa.BinOp:
				if a, ok := intOf(x.X); ok {
					b, ok2 := intOf(x.Y)
					if !ok2 {
						return false, false
					}
					r, ok3 := cmpInt(x.Op, a, b)
					if !ok3 {
						return false, false
					}
					bools[x] = r
				} else {
					return false, false
				}
			case *ssa.If:
				v, ok := boolOf(x.Cond)
				if !ok {
					return false, false
				}
				prev = blk
				if v {
					blk = blk.Succs[0]
				} else {
					blk = blk.Succs[1]
				}
			case *ssa.Jump:
				prev = blk
				blk = blk.Succs[0]
			case *ssa.Return:
				return boolOf(x.Results[0])
			default:
				return false, false
			}
		}
	}
	return false, false
}

// ofDtypeOfRecvField: some tensor.Of(x.Dtype()) reachable from the method (library helpers, two levels) has x = the
// receiver's field of that name, directly or through the helper's parameters.
func (c *Ctx) ofDtypeOfRecvField(m *ssa.Function, field string) bool {
	var fromField func(v ssa.Value, f *ssa.Function, depth int) bool
	callers := func(h *ssa.Function) [][2]any {
		var out [][2]any
		for _, g := range c.libFns {
			for _, b := range g.Blocks {
				for _, in := range b.Instrs {
					if cl, ok := in.(*ssa.Call); ok && cl.Common().StaticCallee() == h {
						out = append(out, [2]any{cl, g})
					}
				}
			}
		}
		return out
	}
	fromField = func(v ssa.Value, f *ssa.Function, depth int) bool {
		if depth > 3 {
			return false
		}
		v = stripConv(v)
		switch x := v.(type) {
		case *ssa.UnOp:
			if fa, ok := x.X.(*ssa.FieldAddr); ok && x.Op == token.MUL {
				if nn, st := structOfPtr(fa.X.Type()); nn != nil && st.Field(fa.Field).Name() == field && len(f.Params) > 0 && fa.X == ssa.Value(f.Params[0]) && f == m {
					return true
				}
			}
		case *ssa.Parameter:
			idx := -1
			for i, p := range f.Params {
				if p == x {
					idx = i
				}
			}
			cs := callers(f)
			if idx < 0 || len(cs) == 0 || f == m {
				return false
			}
			for _, cg := range cs {
				cl, g := cg[0].(*ssa.Call), cg[1].(*ssa.Function)
				if idx >= len(cl.Common().Args) || !fromField(cl.Common().Args[idx], g, depth+1) {
					return false
				}
			}
			return true
		}
		return false
	}
	for f := range c.reachFrom([]*ssa.Function{m}) {
		if !isLibFn(f) {
			continue
		}
		for _, b := range f.Blocks {
			for _, in := range b.Instrs {
				cl, ok := in.(*ssa.Call)
				if !ok {
					continue
				}
				sc := cl.Common().StaticCallee()
				if sc == nil || fnPkgPath(sc) != pkgTensor || sc.Name() != "Of" || len(cl.Common().Args) != 1 {
					continue
				}
				dc, ok := stripConv(cl.Common().Args[0]).(*ssa.Call)
				if !ok {
					continue
				}
				if nm, recv := tensorMethod(dc); nm == "Dtype" && fromField(recv, f, 0) {
					return true
				}
			}
		}
	}
	return false
}

// ofMirrorOfValueDtype: tensor.Of in Apply receives a receiver field F that mirrors the element type of the value
// field: every store to F (in any method of the operator) stores Dtype() of the value tensor as it is at that
// point - a load of the value field after the last store to it in the block, or the very tensor that the preceding
// store put there - and every store to the value field is followed, in its block, by such a store to F.
func (c *Ctx) ofMirrorOfValueDtype(oi *opInfo, valueField string) bool {
	apply := oi.methods["Apply"]
	if apply == nil || len(apply.Params) == 0 {
		return false
	}
	fieldOf := func(v ssa.Value, f *ssa.Function) string {
		fa, ok := v.(*ssa.FieldAddr)
		if !ok || len(f.Params) == 0 || fa.X != ssa.Value(f.Params[0]) {
			return ""
		}
		if nn, st := structOfPtr(fa.X.Type()); nn != nil && nn == oi.named {
			return st.Field(fa.Field).Name()
		}
		return ""
	}
	mirror := ""
	for _, b := range apply.Blocks {
		for _, in := range b.Instrs {
			cl, ok := in.(*ssa.Call)
			if !ok {
				continue
			}
			sc := cl.Common().StaticCallee()
			if sc == nil || fnPkgPath(sc) != pkgTensor || sc.Name() != "Of" || len(cl.Common().Args) != 1 {
				continue
			}
			ld, ok := stripConv(cl.Common().Args[0]).(*ssa.UnOp)
			if !ok || ld.Op != token.MUL {
				return false
			}
			f := fieldOf(ld.X, apply)
			if f == "" || f == valueField || (mirror != "" && mirror != f) {
				return false
			}
			mirror = f
		}
	}
	if mirror == "" {
		return false
	}
	nMirror, nValue := 0, 0
	for _, m := range oi.methods {
		if m == nil {
			continue
		}
		for _, b := range m.Blocks {
			var lastValue ssa.Value // the tensor the last store to the value field put there (nil: none in this block yet)
			pending := false        // a store to the value field not yet followed by a store to the mirror
			for _, in := range b.Instrs {
				st, ok := in.(*ssa.Store)
				if !ok {
					continue
				}
				switch fieldOf(st.Addr, m) {
				case valueField:
					lastValue, pending = st.Val, true
					nValue++
				case mirror:
					nMirror++
					dc, ok := stripConv(st.Val).(*ssa.Call)
					if !ok {
						return false
					}
					nm, recv := tensorMethod(dc)
					if nm != "Dtype" {
						return false
					}
					okSrc := false
					if lastValue != nil && (recv == lastValue || stripConv(recv) == stripConv(lastValue)) {
						okSrc = true
					}
					if ld, isLd := recv.(*ssa.UnOp); isLd && ld.Op == token.MUL && fieldOf(ld.X, m) == valueField {
						// the load must come after the last store to the value field in this block
						okSrc = true
						for _, in2 := range b.Instrs {
							if in2 == ssa.Instruction(ld) {
								break
							}
							if s2, isSt := in2.(*ssa.Store); isSt && fieldOf(s2.Addr, m) == valueField && s2.Val == lastValue && lastValue != nil {
								// a store before the load: fine
								continue
							}
						}
						if ld.Block() != b && lastValue != nil {
							okSrc = false
						}
						if ld.Block() == b && lastValue != nil {
							// position of the load against the last store
							posLd, posSt := -1, -1
							for i, in2 := range b.Instrs {
								if in2 == ssa.Instruction(ld) {
									posLd = i
								}
								if s2, isSt := in2.(*ssa.Store); isSt && fieldOf(s2.Addr, m) == valueField && i < indexOfInstr(b, in) {
									posSt = i
								}
							}
							okSrc = posLd > posSt
						}
					}
					if !okSrc {
						return false
					}
					pending = false
				}
			}
			if pending {
				return false
			}
		}
	}
	return nMirror > 0 && nValue > 0
}

func indexOfInstr(b *ssa.BasicBlock, in ssa.Instruction) int {
	for i, x := range b.Instrs {
		if x == in {
			return i
		}
	}
	return -1
}

// cosPositiveDimsTable walks ConstantOfShape.Apply with the requested shape bound to small lists: a list with an
// extent <= 0 must end in an error on every path the walk can follow (known=false when it cannot tell).
func (c *Ctx) cosPositiveDimsTable(apply *ssa.Function) (known, ok bool) {
	st := c.libInit()
	if len(st.failed) > 0 {
		return false, false
	}
	for _, l := range [][]int64{{0}, {2, 0}, {-1, 2}, {3, -2, 1}, {0, 0}} {
		l := l
		p := &pinterp{c: c, budget: 200000, objects: true, globals: st.globals}
		p.rankOf = func(k int64) (int64, bool) { return 1, k == 0 }
		p.extentOf = func(k, i int64) (int64, bool) { return int64(len(l)), k == 0 && i == 0 }
		p.present = func(k int64) bool { return k == 0 }
		p.inputList = func(k int64) ([]int64, bool) { return l, k == 0 }
		res, _ := p.run(apply, []pval{{k: pRecv}, {k: pInputs}}, 0, st.heap.clone())
		if p.aborted || len(res) != 2 {
			return false, false
		}
		switch {
		case nonNilKind(res[1].k):
		case res[1].k == pNil:
			return true, false
		default:
			return false, false
		}
	}
	return true, true
}

// cosInitTable walks ConstantOfShape.Init on three nodes: no attribute (the value must become a tensor built from
// the float32 constant zero), a `value` tensor of one element (accepted) and of two elements (refused). The decoder
// and gorgonia's constructors are abstract; Len() of the tensor built over the decoded data answers the cell's
// element count.
func (c *Ctx) cosInitTable() (known, defaultF32, oneElement bool) {
	oi := c.opByName("ConstantOfShape")
	onnxPkg := c.pkgByPath[pkgOnnx]
	if oi == nil || oi.methods["Init"] == nil || onnxPkg == nil {
		return false, false, false
	}
	st := c.libInit()
	if len(st.failed) > 0 {
		return false, false, false
	}
	init := oi.methods["Init"]
	type res struct {
		followed, isErr bool
		scalarZeroF32   bool
	}
	run := func(withValue bool, nElems int64) res {
		heap := st.heap.clone()
		b := &rtBuilder{c: c, heap: heap, onnx: onnxPkg.Types}
		tproto := b.obj(onnxPkg.Types, "TensorProto", map[string]pval{})
		var attrs []pval
		if withValue {
			attrs = append(attrs, b.obj(onnxPkg.Types, "AttributeProto", map[string]pval{"Name": {k: pStr, s: "value"}, "T": tproto}))
		}
		node := b.obj(onnxPkg.Types, "NodeProto", map[string]pval{"Attribute": b.list(attrs...)})
		recv := heap.newObj(oi.named)
		p := &pinterp{c: c, budget: 300000, objects: true, globals: st.globals, trace: os.Getenv("COSTRACE") != ""}
		var out res
		next := int64(9300)
		p.extModel = func(key string, call *ssa.Call, ops []pval, h *pheap) ([]pval, bool) {
			switch key {
			case pkgTensor + ".FromScalar":
				if len(call.Common().Args) == 1 {
					v := call.Common().Args[0]
					if mi, ok := v.(*ssa.MakeInterface); ok {
						v = mi.X
					}
					if k, ok := v.(*ssa.Const); ok && k.Value != nil && constant.Sign(k.Value) == 0 {
						if bt, ok := k.Type().Underlying().(*types.Basic); ok && bt.Kind() == types.Float32 {
							out.scalarZeroF32 = true
						}
					}
				}
				next++
				return []pval{{k: pAbs, i: next, s: "option"}}, true
			case pkgTensor + ".WithBacking", pkgTensor + ".WithShape", pkgTensor + ".Of":
				next++
				return []pval{{k: pAbs, i: next, s: "option"}}, true
			case pkgTensor + ".New":
				next++
				return []pval{{k: pAbs, i: next, s: "tensor"}}, true
			}
			return nil, false
		}
		p.onInvoke = func(fn *ssa.Function, call *ssa.Call, recvV pval, method string, args []pval, h *pheap) ([]pval, bool) {
			if recvV.k == pAbs && recvV.s == "tensor" {
				switch method {
				case "Len", "Size", "DataSize":
					return []pval{{k: pInt, i: nElems}}, true
				case "Data":
					return []pval{{k: pAbs, i: 9201, s: "data"}}, true
				case "Dtype":
					return []pval{{k: pAbs, i: 9202, s: "dtype"}}, true
				}
			}
			return nil, false
		}
		p.intercept = func(fn *ssa.Function, call *ssa.Call, callee *ssa.Function, args []pval, h *pheap) ([]pval, bool) {
			if fnPkgPath(callee) == pkgOnnx && callee.Name() == "TensorFromProto" && callee.Parent() == nil {
				return []pval{{k: pAbs, i: 9200, s: "tensor"}, {k: pNil}}, true
			}
			return nil, false
		}
		r, h := p.run(init, []pval{recv, node}, 0, heap)
		if p.aborted || len(r) != 1 || h == nil {
			return out
		}
		switch {
		case nonNilKind(r[0].k):
			out.followed, out.isErr = true, true
		case r[0].k == pNil:
			out.followed = true
		}
		return out
	}
	none, one, two := run(false, 1), run(true, 1), run(true, 2)
	if os.Getenv("COSDEBUG") != "" {
		fmt.Printf("COSDEBUG none=%+v one=%+v two=%+v\n", none, one, two)
	}
	if !none.followed || !one.followed || !two.followed {
		return false, false, false
	}
	return true, !none.isErr && none.scalarZeroF32, !one.isErr && two.isErr
}
