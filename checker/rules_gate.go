package main

import (
	"fmt"
	"go/token"
	"go/types"
	"os"
	"path/filepath"
	"sort"
	"strings"

	"golang.org/x/tools/go/ssa"
)

// ---------------------------------------------------------------------------------------------
// R2 — registry and constructor freshness
// ---------------------------------------------------------------------------------------------

func ruleR2(c *Ctx, prop string) {
	regs := c.findRegistries()
	if len(regs) == 0 {
		c.violate("R2", "R2:registry:missing", "", "no package-level map[string]func() ops.Operator found: no operator name resolves")
		return
	}
	opsAll := c.operators()
	registered := map[*types.Named]bool{}
	total := 0
	for _, r := range regs {
		for _, b := range r.bad {
			c.violate("R2", "R2:registry:entry:"+b, c.pos(r.lit.Pos()), "registry entry is not a constant name mapped to a named constructor function")
		}
		for _, name := range sortedKeys(r.entries) {
			total++
			ctor := r.entries[name]
			key := "R2:ctor:" + name
			ok, why, named := c.ctorFresh(ctor)
			if named != nil {
				registered[named] = true
			}
			c.decide(ok, "R2", key, c.pos(ctor.Pos()), "constructor returns a new heap value of "+why+" on every path", why)
		}
	}
	c.counts["R2.registry_entries"] = total
	// registry completeness "through time": the 55 names frozen at the pinned commit
	base := baselineNames()
	if len(base) == 0 {
		c.undecided("R2", "R2:baseline", "", "baseline/opnames.txt unreadable")
	} else {
		missing := []string{}
		for _, n := range base {
			found := false
			for _, r := range regs {
				if _, ok := r.entries[n]; ok {
					found = true
				}
			}
			if !found {
				missing = append(missing, n)
			}
		}
		c.decide(len(missing) == 0, "R2", "R2:registry:complete", c.pos(regs[0].lit.Pos()),
			fmt.Sprintf("all %d operator names of the pinned opset resolve", len(base)),
			"operator names of the opset no longer registered: "+strings.Join(missing, ","))
	}
	// every implementing type with a constructor is registered
	for _, oi := range opsAll {
		if oi.control {
			continue
		}
		if oi.named.Obj().Pkg().Path() != regs[0].pkgPath {
			continue
		}
		c.decide(registered[oi.named], "R2", "R2:registered:"+oi.name, c.pos(oi.named.Obj().Pos()),
			"operator type is constructed by a registry entry", "type implements ops.Operator but no registry constructor returns it")
	}
	// the getter (role: function of type OpGetter-compatible signature in the registry package that reads the registry)
	for _, r := range regs {
		getter := c.findGetter(r)
		if getter == nil {
			c.violate("R2", "R2:getter:missing", c.pos(r.lit.Pos()), "no func(string) (ops.Operator, error) reads the registry")
			continue
		}
		c.checkGetter(getter, r)
	}
}

func baselineNames() []string {
	exe, _ := os.Executable()
	cands := []string{filepath.Join(filepath.Dir(exe), "..", "baseline", "opnames.txt"), "/verif/baseline/opnames.txt"}
	for _, p := range cands {
		if b, err := os.ReadFile(p); err == nil {
			return strings.Fields(string(b))
		}
	}
	return nil
}

// ctorFresh: every return is MakeInterface(Alloc heap of a struct type declared in the library).
func (c *Ctx) ctorFresh(fn *ssa.Function) (bool, string, *types.Named) {
	rets := returnsOf(fn)
	if len(rets) == 0 {
		return false, "constructor has no return", nil
	}
	var named *types.Named
	for _, r := range rets {
		if len(r.Results) != 1 {
			return false, "constructor does not return exactly one value", nil
		}
		mi, ok := r.Results[0].(*ssa.MakeInterface)
		if !ok {
			return false, "constructor returns " + r.Results[0].String() + " (not a freshly built value): operators could be shared between lookups", nil
		}
		al, ok := mi.X.(*ssa.Alloc)
		if !ok || !al.Heap {
			return false, "constructor returns a value that is not allocated in the constructor (" + mi.X.String() + "): attribute state would be shared between lookups", nil
		}
		pt, _ := al.Type().(*types.Pointer)
		n, _ := pt.Elem().(*types.Named)
		if n == nil {
			return false, "constructor returns an unnamed type", nil
		}
		if named != nil && named != n {
			return false, "constructor returns different types on different paths", nil
		}
		named = n
		// no field of the new value may be initialised from package-level mutable state (slices/maps):
		for _, ref := range *al.Referrers() {
			fa, ok := ref.(*ssa.FieldAddr)
			if !ok {
				continue
			}
			for _, r2 := range *fa.Referrers() {
				st, ok := r2.(*ssa.Store)
				if !ok || st.Addr != fa {
					continue
				}
				if u, ok := st.Val.(*ssa.UnOp); ok && u.Op == token.MUL {
					if g, ok := u.X.(*ssa.Global); ok {
						switch g.Type().(*types.Pointer).Elem().Underlying().(type) {
						case *types.Slice, *types.Map, *types.Pointer:
							return false, "constructor shares package-level " + g.Name() + " with every instance", named
						}
					}
				}
			}
		}
	}
	return true, "*" + named.Obj().Name(), named
}

func (c *Ctx) findGetter(r *registry) *ssa.Function {
	opT := c.pkgByPath[pkgOps].Types.Scope().Lookup("Operator").Type()
	for _, fn := range c.libFns {
		if fn.Parent() != nil || fn.Signature.Recv() != nil || fnPkgPath(fn) != r.pkgPath {
			continue
		}
		s := fn.Signature
		if s.Params().Len() != 1 || s.Results().Len() != 2 || !types.Identical(s.Results().At(0).Type(), opT) || !isErrorType(s.Results().At(1).Type()) {
			continue
		}
		if b, ok := s.Params().At(0).Type().Underlying().(*types.Basic); !ok || b.Kind() != types.String {
			continue
		}
		return fn
	}
	return nil
}

func (c *Ctx) checkGetter(fn *ssa.Function, r *registry) {
	site := c.pos(fn.Pos())
	sentinel := c.sentinel(pkgOps, "ErrUnsupportedOperator")
	hit, miss := 0, 0
	bad := ""
	for _, ret := range returnsOf(fn) {
		op, err := ret.Results[0], ret.Results[1]
		if isNilConst(err) {
			// hit path: op must be the result of calling the value looked up in the registry with the parameter as key
			call, ok := op.(*ssa.Call)
			if !ok || call.Common().IsInvoke() || call.Common().StaticCallee() != nil {
				bad = "success return does not call the looked-up constructor (" + op.String() + "): an operator instance or a substitute is returned"
				continue
			}
			ex, ok := call.Common().Value.(*ssa.Extract)
			var lk *ssa.Lookup
			if ok {
				lk, _ = ex.Tuple.(*ssa.Lookup)
			} else if l2, ok := call.Common().Value.(*ssa.Lookup); ok {
				lk = l2
			}
			if lk == nil {
				bad = "success return calls a function value that is not read from the registry"
				continue
			}
			ld, ok := lk.X.(*ssa.UnOp)
			if !ok || ld.X != r.global {
				bad = "success return reads a map other than the registry"
				continue
			}
			if lk.Index != fn.Params[0] {
				bad = "registry is indexed by something other than the requested operator type"
				continue
			}
			// the comma-ok must be true here
			if lk.CommaOk {
				okv := false
				for v, truth := range boolFacts(ret.Block()) {
					if e, isEx := v.(*ssa.Extract); isEx && e.Tuple == lk && e.Index == 1 && truth {
						okv = true
					}
				}
				if !okv {
					bad = "constructor is called without the registry hit being established"
					continue
				}
			} else {
				bad = "registry read without comma-ok: a miss calls a nil constructor (panic)"
				continue
			}
			hit++
		} else {
			if !isNilConst(op) {
				bad = "error return also returns an operator"
				continue
			}
			if !c.definitelyNonNilErr(err, ret.Block(), 0) {
				bad = "miss path may return (nil, nil)"
				continue
			}
			if sentinel == nil || !c.errWraps(err, sentinel, 0) {
				bad = "miss path error does not wrap ops.ErrUnsupportedOperator"
				continue
			}
			miss++
		}
	}
	if !(bad == "" && hit >= 1 && miss >= 1) {
		// the same clause by table, however the lookup is factored: the getter walked for every registered name and
		// for names the registry does not have
		if known, tbad, n := c.getterTable(fn, r); known {
			c.decide(tbad == "", "R2", "R2:getter:"+fname(fn), site,
				fmt.Sprintf("by table over the %d registered names and three unknown ones: each name yields a new operator of the registered constructor's type (two calls, two objects), an unknown name (nil, error)", n), tbad)
			return
		}
	}
	c.decide(bad == "" && hit >= 1 && miss >= 1, "R2", "R2:getter:"+fname(fn), site,
		"hit path calls the registry constructor for the requested name; miss path returns (nil, error wrapping ErrUnsupportedOperator)",
		firstNonEmpty(bad, "getter lacks a hit or a miss path"))
}

// getterTable walks the operator getter for every registered name (twice) and for unknown names.
func (c *Ctx) getterTable(fn *ssa.Function, r *registry) (known bool, bad string, n int) {
	st := c.libInit()
	if len(st.failed) > 0 || len(fn.Params) != 1 || len(r.entries) == 0 {
		return false, "", 0
	}
	cov := newCover(fn)
	cov.pkgs = map[string]bool{fnPkgPath(fn): true}
	typeOf := func(v pval, h *pheap) types.Type {
		if v.k != pObj || h == nil || h.objs[v.i] == nil {
			return nil
		}
		return h.objs[v.i].typ
	}
	names := make([]string, 0, len(r.entries))
	for nm := range r.entries {
		names = append(names, nm)
	}
	sort.Strings(names)
	for _, nm := range names {
		ctor := r.entries[nm]
		heap := st.heap.clone()
		p := &pinterp{c: c, budget: 100000, objects: true, globals: st.globals, cover: cov}
		panicked := ""
		p.onPanic = func(f *ssa.Function, in ssa.Instruction, what string) { panicked = what }
		want, hw := p.run(ctor, nil, 0, heap.clone())
		if hw == nil || len(want) != 1 || typeOf(want[0], hw) == nil {
			return false, "", n
		}
		r1, h1 := p.run(fn, []pval{{k: pStr, s: nm}}, 0, heap)
		if panicked != "" {
			return true, fmt.Sprintf("the getter panics for the registered name %q: %s", nm, panicked), n
		}
		if p.aborted || h1 == nil || len(r1) != 2 {
			return false, "", n
		}
		if nonNilKind(r1[1].k) {
			return true, fmt.Sprintf("the registered name %q is answered with an error", nm), n
		}
		if r1[1].k != pNil || typeOf(r1[0], h1) == nil {
			return false, "", n
		}
		if !types.Identical(typeOf(r1[0], h1), typeOf(want[0], hw)) {
			return true, fmt.Sprintf("the name %q yields a %s, its registered constructor makes a %s", nm, typeOf(r1[0], h1), typeOf(want[0], hw)), n
		}
		r2, h2 := p.run(fn, []pval{{k: pStr, s: nm}}, 0, h1)
		if p.aborted || h2 == nil || len(r2) != 2 || r2[1].k != pNil || typeOf(r2[0], h2) == nil {
			return false, "", n
		}
		if r2[0].i == r1[0].i {
			return true, fmt.Sprintf("two requests for %q yield the same operator object: operators are not fresh per node", nm), n
		}
		n++
	}
	for _, nm := range []string{"NoSuchOperator", "", strings.ToLower(names[0])} {
		if _, isReg := r.entries[nm]; isReg {
			continue
		}
		heap := st.heap.clone()
		p := &pinterp{c: c, budget: 100000, objects: true, globals: st.globals, cover: cov}
		panicked := ""
		p.onPanic = func(f *ssa.Function, in ssa.Instruction, what string) { panicked = what }
		res, h := p.run(fn, []pval{{k: pStr, s: nm}}, 0, heap)
		if panicked != "" {
			return true, fmt.Sprintf("the getter panics for the unknown name %q: %s", nm, panicked), n
		}
		if p.aborted || h == nil || len(res) != 2 {
			return false, "", n
		}
		if !nonNilKind(res[1].k) {
			if res[1].k == pNil {
				return true, fmt.Sprintf("the unknown name %q is answered without an error", nm), n
			}
			return false, "", n
		}
		if res[0].k != pNil {
			return true, fmt.Sprintf("the unknown name %q is answered with an operator next to the error", nm), n
		}
	}
	if unc := cov.uncovered(c); len(unc) > 0 {
		c.declined("getter table of "+fname(fn), unc)
		return false, "", n
	}
	return true, "", n
}

func firstNonEmpty(a ...string) string {
	for _, s := range a {
		if s != "" {
			return s
		}
	}
	return ""
}

func (c *Ctx) sentinel(pkg, name string) *ssa.Global {
	sp := c.ssaPkg[pkg]
	if sp == nil {
		return nil
	}
	g, _ := sp.Members[name].(*ssa.Global)
	return g
}

// ---------------------------------------------------------------------------------------------
// R6 — operator gate tables
// ---------------------------------------------------------------------------------------------

type gateTable struct {
	min, max   int64
	dynMax     bool // Concat-style: max taken from len(inputs)
	rows       [][]string
	dynRows    bool
	rowsOK     bool
	evaluable  bool
	whyNotEval string
}

func (c *Ctx) gateTableOf(oi *opInfo) gateTable {
	var t gateTable
	t.evaluable = true
	var ok bool
	var how string
	if t.min, how, ok = c.evalIntReturn(oi.methods["GetMinInputs"]); !ok {
		t.evaluable = false
		t.whyNotEval = "GetMinInputs: " + how
	}
	if t.max, how, ok = c.evalIntReturn(oi.methods["GetMaxInputs"]); !ok {
		if c.returnsReceiverField(oi.methods["GetMaxInputs"]) != "" {
			t.dynMax = true
		} else {
			t.evaluable = false
			t.whyNotEval = "GetMaxInputs: " + how
		}
	}
	if t.rows, how, ok = c.evalDtypeMatrix(oi.methods["GetInputTypeConstraints"]); !ok {
		if c.returnsReceiverField(oi.methods["GetInputTypeConstraints"]) != "" {
			t.dynRows = true
		} else if rows, ok := c.walkDtypeMatrix(oi); ok {
			// not a literal (a shared constructor of the table, a package variable built by a function):
			// the getter is walked on a freshly constructed operator
			t.rows, t.rowsOK = rows, true
		} else {
			t.evaluable = false
			t.whyNotEval = "GetInputTypeConstraints: " + how
		}
	} else {
		t.rowsOK = true
	}
	return t
}

// walkDtypeMatrix reads the operator's type table by walking GetInputTypeConstraints on an operator built by its
// registered constructor (the partial interpreter; gorgonia's dtype variables are opaque tokens).
func (c *Ctx) walkDtypeMatrix(oi *opInfo) ([][]string, bool) {
	m := oi.methods["GetInputTypeConstraints"]
	ctor := c.registeredCtor(oi, oi.name)
	if m == nil || ctor == nil {
		return nil, false
	}
	st := c.libInit()
	if len(st.failed) > 0 {
		return nil, false
	}
	names := map[string]string{}
	for _, n := range []string{"Bool", "Int8", "Int16", "Int32", "Int64", "Uint8", "Uint16", "Uint32", "Uint64", "Float32", "Float64", "Complex64", "Complex128", "String"} {
		if v, ok := c.dtypeToken(n); ok {
			names[fmt.Sprintf("%d/%s", v.i, v.s)] = n
		}
	}
	p := &pinterp{c: c, budget: 200000, objects: true, globals: st.globals}
	res, h := p.run(ctor, nil, 0, st.heap.clone())
	if h == nil || len(res) != 1 || res[0].k != pObj {
		return nil, false
	}
	r, h2 := p.run(m, []pval{res[0]}, 0, h)
	if h2 == nil || len(r) != 1 || r[0].k != pList {
		return nil, false
	}
	var rows [][]string
	for _, rv := range h2.lists[r[0].i] {
		if rv.k != pList || h2.lists[rv.i] == nil {
			return nil, false
		}
		row := []string{}
		for _, e := range h2.lists[rv.i] {
			n, ok := names[fmt.Sprintf("%d/%s", e.i, e.s)]
			if e.k != pAbs || !ok {
				return nil, false
			}
			row = append(row, n)
		}
		rows = append(rows, row)
	}
	return rows, true
}

// returnsReceiverField: body is `return recv.f` -> field name.
func (c *Ctx) returnsReceiverField(fn *ssa.Function) string {
	if fn == nil {
		return ""
	}
	rets := returnsOf(fn)
	if len(rets) != 1 || len(rets[0].Results) != 1 {
		return ""
	}
	ld, ok := rets[0].Results[0].(*ssa.UnOp)
	if !ok || ld.Op != token.MUL {
		return ""
	}
	fa, ok := ld.X.(*ssa.FieldAddr)
	if !ok || len(fn.Params) == 0 || fa.X != fn.Params[0] {
		return ""
	}
	st := fa.X.Type().(*types.Pointer).Elem().Underlying().(*types.Struct)
	return st.Field(fa.Field).Name()
}

// required dtypes per registry name and position (from the property statements C03/C04/C06/C10/C05).
var requiredDtypes = map[string]map[int][]string{}

func init() {
	arith := []string{"Float32", "Float64", "Int32", "Int64"}
	for _, n := range []string{"Add", "Sub", "Mul", "Div", "Equal", "Greater", "GreaterOrEqual", "Less", "LessOrEqual"} {
		requiredDtypes[n] = map[int][]string{0: arith, 1: arith}
	}
	for _, n := range []string{"And", "Or", "Xor"} {
		requiredDtypes[n] = map[int][]string{0: {"Bool"}, 1: {"Bool"}}
	}
	requiredDtypes["Not"] = map[int][]string{0: {"Bool"}}
	f32 := []string{"Float32"}
	requiredDtypes["MatMul"] = map[int][]string{0: f32, 1: f32}
	requiredDtypes["Gemm"] = map[int][]string{0: f32, 1: f32, 2: f32}
	requiredDtypes["LinearRegressor"] = map[int][]string{0: f32}
	requiredDtypes["Scaler"] = map[int][]string{0: f32}
	requiredDtypes["RNN"] = map[int][]string{0: f32, 1: f32, 2: f32, 3: f32, 5: f32}
	requiredDtypes["GRU"] = map[int][]string{0: f32, 1: f32, 2: f32, 3: f32, 5: f32}
	requiredDtypes["LSTM"] = map[int][]string{0: f32, 1: f32, 2: f32, 3: f32, 5: f32, 6: f32, 7: f32}
	fl := []string{"Float32", "Float64"}
	for _, n := range []string{"Abs", "Relu", "Sigmoid", "Tanh", "Sin", "Cos", "Tan", "Asin", "Acos", "Atan", "Sinh", "Cosh", "Asinh", "Acosh", "Atanh"} {
		requiredDtypes[n] = map[int][]string{0: fl}
	}
	requiredDtypes["PRelu"] = map[int][]string{0: fl, 1: fl}
	requiredDtypes["Conv"] = map[int][]string{0: fl, 1: fl, 2: fl}
}

// propOps restricts table rules to the operators a property talks about (nil = all).
var propOps = map[string][]string{
	"C03": {"Add", "Sub", "Mul", "Div", "Equal", "Greater", "GreaterOrEqual", "Less", "LessOrEqual", "And", "Or", "Xor"},
	"C04": {"MatMul", "Gemm", "LinearRegressor", "Scaler"},
	"C05": {"Conv"},
	"C06": {"RNN", "GRU", "LSTM"},
	"C10": {"Abs", "Relu", "PRelu", "Sigmoid", "Tanh", "Sin", "Cos", "Tan", "Asin", "Acos", "Atan", "Sinh", "Cosh", "Asinh", "Acosh", "Atanh", "Not"},
}

func inScope(prop, regName string) bool {
	l, ok := propOps[prop]
	if !ok {
		return true
	}
	for _, n := range l {
		if n == regName {
			return true
		}
	}
	return false
}

// regNameOf maps operator types to registry names.
func (c *Ctx) regNamesByType() map[*types.Named][]string {
	out := map[*types.Named][]string{}
	for _, r := range c.findRegistries() {
		for _, name := range sortedKeys(r.entries) {
			_, _, named := c.ctorFresh(r.entries[name])
			if named != nil {
				out[named] = append(out[named], name)
			}
		}
	}
	return out
}

func ruleR6(c *Ctx, prop string) {
	opsAll := c.operators()
	names := c.regNamesByType()
	gate := c.findGate(opsAll)
	if gate == nil {
		c.violate("R6", "R6:gate:missing", "", "no common gate function is called by the operators' ValidateInputs methods: arity/type enforcement cannot be located")
		return
	}
	nOps := 0
	for _, oi := range opsAll {
		if oi.control {
			continue
		}
		reg := oi.name
		if ns := names[oi.named]; len(ns) > 0 {
			reg = ns[0]
		}
		full := prop == "C15"
		if !full && !inScope(prop, reg) {
			continue
		}
		nOps++
		t := c.gateTableOf(oi)
		site := c.pos(oi.named.Obj().Pos())
		if full {
			c.checkT1T2(oi, reg, t, site)
			c.checkT3(oi, reg, t, gate)
			c.checkT4T5(oi, reg, t)
		}
		// T8 dtype admission
		if req, ok := requiredDtypes[reg]; ok {
			poss := make([]int, 0, len(req))
			for p := range req {
				poss = append(poss, p)
			}
			sort.Ints(poss)
			for _, p := range poss {
				key := fmt.Sprintf("R6:T8:%s:pos%d", reg, p)
				if !t.rowsOK {
					c.undecided("R6", key, site, "constraints not evaluable: "+t.whyNotEval)
					continue
				}
				if p >= len(t.rows) {
					c.violate("R6", key, site, fmt.Sprintf("no constraint row for input %d", p))
					continue
				}
				missing := []string{}
				for _, d := range req[p] {
					if !has(t.rows[p], d) {
						missing = append(missing, d)
					}
				}
				c.decide(len(missing) == 0, "R6", key, c.pos(oi.methods["GetInputTypeConstraints"].Pos()),
					"required dtypes "+strings.Join(req[p], ",")+" admitted at this position",
					"dtype(s) "+strings.Join(missing, ",")+" that the property requires to be computed are refused by the gate")
			}
		}
	}
	c.counts["R6.operators"] = nOps
	if prop == "C15" {
		c.checkT7(gate)
		if nOps < 55 {
			c.undecided("R6", "R6:floor", "", fmt.Sprintf("only %d operator types found (floor 55)", nOps))
		}
	}
}

func (c *Ctx) checkT1T2(oi *opInfo, reg string, t gateTable, site string) {
	k1 := "R6:T1:" + reg
	k2 := "R6:T2:" + reg
	if !t.evaluable {
		c.undecided("R6", k1, site, "gate table not statically evaluable: "+t.whyNotEval)
		return
	}
	if t.dynMax || t.dynRows {
		// T6: Concat-style dynamic arity
		c.checkT6(oi, reg, t)
		c.decide(t.min >= 0, "R6", k1, site, fmt.Sprintf("min=%d, max=len(inputs) (dynamic, T6)", t.min), "negative minimum")
		return
	}
	c.decide(0 <= t.min && t.min <= t.max, "R6", k1, c.pos(oi.methods["GetMinInputs"].Pos()),
		fmt.Sprintf("0 <= min=%d <= max=%d", t.min, t.max), fmt.Sprintf("arity bounds inconsistent: min=%d max=%d", t.min, t.max))
	bad := ""
	if int64(len(t.rows)) < t.max {
		bad = fmt.Sprintf("constraint list has %d rows but max inputs is %d: the gate indexes typeConstraints[i] for every padded input (index out of range panic for an accepted count)", len(t.rows), t.max)
	} else {
		for i := int64(0); i < t.max; i++ {
			if len(t.rows[i]) == 0 {
				bad = fmt.Sprintf("constraint row %d is empty: every tensor at that position is refused", i)
			}
		}
	}
	c.decide(bad == "", "R6", k2, c.pos(oi.methods["GetInputTypeConstraints"].Pos()),
		fmt.Sprintf("len(constraints)=%d >= max=%d, rows non-empty", len(t.rows), t.max), bad)
}

// findGate: the library function that the majority of ValidateInputs methods call with (receiver, inputs).
func (c *Ctx) findGate(opsAll []*opInfo) *ssa.Function {
	votes := map[*ssa.Function]int{}
	for _, oi := range opsAll {
		if oi.control {
			continue
		}
		fn := oi.methods["ValidateInputs"]
		if fn == nil {
			continue
		}
		for _, b := range fn.Blocks {
			for _, in := range b.Instrs {
				if call, ok := in.(*ssa.Call); ok {
					if f := call.Common().StaticCallee(); f != nil && isLibFn(f) && len(call.Common().Args) == 2 {
						votes[f]++
					}
				}
			}
		}
	}
	var best *ssa.Function
	for f, n := range votes {
		if best == nil || n > votes[best] {
			best = f
		}
	}
	if best != nil && votes[best] < 10 {
		return nil
	}
	return best
}

func (c *Ctx) checkT3(oi *opInfo, reg string, t gateTable, gate *ssa.Function) {
	fn := oi.methods["ValidateInputs"]
	key := "R6:T3:" + reg
	site := c.pos(fn.Pos())
	var gcall *ssa.Call
	n := 0
	for _, b := range fn.Blocks {
		for _, in := range b.Instrs {
			if call, ok := in.(*ssa.Call); ok && call.Common().StaticCallee() == gate {
				gcall = call
				n++
			}
		}
	}
	if n != 1 {
		c.violate("R6", key, site, fmt.Sprintf("ValidateInputs calls the generic gate %d times (expected exactly once): arity and dtype are not enforced as declared", n))
		return
	}
	args := gcall.Common().Args
	mi, ok := args[0].(*ssa.MakeInterface)
	if !ok || mi.X != fn.Params[0] {
		c.violate("R6", key, site, "the gate is not given the receiver as operator: another operator's table is enforced")
		return
	}
	if args[1] != paramOrNil(fn, 1) {
		c.violate("R6", key, site, "the gate is not given ValidateInputs' own parameter")
		return
	}
	// the gate call must dominate every return
	for _, ret := range returnsOf(fn) {
		if !gcall.Block().Dominates(ret.Block()) {
			c.violate("R6", key, site, "a return is reachable without passing the gate")
			return
		}
		res, err := ret.Results[0], ret.Results[1]
		exRes := isExtractOf(res, gcall, 0)
		switch {
		case isExtractOf(err, gcall, 1):
			// returns the gate's own error (possibly nil): result must be the gate's list
			if !exRes && !isNilConst(res) {
				c.violate("R6", key, c.pos(ret.Pos()), "returns the gate's error with a different tensor list")
				return
			}
			if isNilConst(res) && !knownNonNil(err, ret.Block()) {
				c.violate("R6", key, c.pos(ret.Pos()), "may return (nil, nil): accepted inputs are not passed through")
				return
			}
		case isNilConst(err):
			if !exRes {
				c.violate("R6", key, c.pos(ret.Pos()), "success return does not pass the gate's (padded) list through unchanged")
				return
			}
			// gate error must be known nil here
			okNil := false
			for _, g := range guardsOf(ret.Block()) {
				for _, a := range atomsOf(g) {
					if a.op == token.EQL && ((isExtractOf(a.x, gcall, 1) && isNilConst(a.y)) || (isExtractOf(a.y, gcall, 1) && isNilConst(a.x))) {
						okNil = true
					}
				}
			}
			if !okNil {
				c.violate("R6", key, c.pos(ret.Pos()), "success return is not guarded by the gate's error being nil")
				return
			}
		default:
			if !c.definitelyNonNilErr(err, ret.Block(), 0) {
				c.violate("R6", key, c.pos(ret.Pos()), "additional check returns an error that may be nil together with a different list")
				return
			}
		}
	}
	c.discharge("R6", key, site, "delegates to "+fname(gate)+"(receiver, inputs); every return passes the gate and hands on its list or an error")
}

func isExtractOf(v ssa.Value, call *ssa.Call, idx int) bool {
	e, ok := v.(*ssa.Extract)
	return ok && e.Tuple == call && e.Index == idx
}

// checkT6: dynamic arity (Concat): both getters return receiver fields that ValidateInputs sets from
// len(inputs) before the delegate call.
func (c *Ctx) checkT6(oi *opInfo, reg string, t gateTable) {
	key := "R6:T6:" + reg
	fn := oi.methods["ValidateInputs"]
	site := c.pos(fn.Pos())
	fMax := c.returnsReceiverField(oi.methods["GetMaxInputs"])
	fRows := c.returnsReceiverField(oi.methods["GetInputTypeConstraints"])
	if fMax == "" || fRows == "" {
		c.violate("R6", key, site, "only one of max inputs / constraints is dynamic: the gate may index past the constraint list")
		return
	}
	var gcall *ssa.Call
	for _, b := range fn.Blocks {
		for _, in := range b.Instrs {
			if call, ok := in.(*ssa.Call); ok && len(call.Common().Args) == 2 && call.Common().Args[1] == paramOrNil(fn, 1) && call.Common().StaticCallee() != nil {
				gcall = call
			}
		}
	}
	if gcall == nil {
		c.violate("R6", key, site, "no delegate call")
		return
	}
	isLenInputs := func(v ssa.Value) bool {
		call, ok := v.(*ssa.Call)
		if !ok {
			return false
		}
		b, ok := call.Common().Value.(*ssa.Builtin)
		return ok && b.Name() == "len" && call.Common().Args[0] == paramOrNil(fn, 1)
	}
	st := fn.Params[0].Type().(*types.Pointer).Elem().Underlying().(*types.Struct)
	okMax, okRows, okFill := false, false, false
	var mk *ssa.MakeSlice
	for _, b := range fn.Blocks {
		for _, in := range b.Instrs {
			s, ok := in.(*ssa.Store)
			if !ok {
				continue
			}
			if fa, ok := s.Addr.(*ssa.FieldAddr); ok && fa.X == fn.Params[0] {
				fname := st.Field(fa.Field).Name()
				if !b.Dominates(gcall.Block()) {
					continue
				}
				if fname == fMax && isLenInputs(s.Val) {
					okMax = true
				}
				if fname == fRows {
					if m, ok := s.Val.(*ssa.MakeSlice); ok && isLenInputs(m.Len) {
						okRows = true
						mk = m
					}
				}
			}
		}
	}
	// fill loop: store of a non-empty dtype list into rows[i], i < len(inputs), before the gate
	for _, b := range fn.Blocks {
		for _, in := range b.Instrs {
			s, ok := in.(*ssa.Store)
			if !ok {
				continue
			}
			ia, ok := s.Addr.(*ssa.IndexAddr)
			if !ok {
				continue
			}
			// the indexed slice is the field value or the make
			base := ia.X
			if ld, ok := base.(*ssa.UnOp); ok {
				if fa, ok := ld.X.(*ssa.FieldAddr); ok && fa.X == fn.Params[0] && st.Field(fa.Field).Name() == fRows {
					base = mk
				}
			}
			if base != mk || mk == nil {
				continue
			}
			if ld, ok := s.Val.(*ssa.UnOp); ok {
				if g, ok := ld.X.(*ssa.Global); ok {
					if row, ok := c.globalDtypeRow(g); ok && len(row) > 0 {
						// loop bound
						for _, gd := range guardsOf(b) {
							for _, a := range atomsOf(gd) {
								if a.op == token.LSS && a.x == ia.Index && isLenInputs(a.y) {
									okFill = true
								}
							}
						}
					}
				}
			}
		}
	}
	c.decide(okMax && okRows && okFill, "R6", key, site,
		"max := len(inputs); constraints := make(len(inputs)) filled with a non-empty list for every i < len(inputs), all before the delegate call",
		fmt.Sprintf("dynamic arity table not established before the gate (max=%v rows=%v fill=%v)", okMax, okRows, okFill))
}

func (c *Ctx) globalDtypeRow(g *ssa.Global) ([]string, bool) {
	v, ok := g.Object().(*types.Var)
	if !ok {
		return nil, false
	}
	return c.evalDtypeRowOfVar(v)
}

// checkT4T5: constant indices into inputs are < max (or < min when max is dynamic); optional inputs are nil-guarded.
func (c *Ctx) checkT4T5(oi *opInfo, reg string, t gateTable) {
	apply := oi.methods["Apply"]
	if apply == nil || !t.evaluable {
		return
	}
	bound := t.max
	if t.dynMax {
		bound = t.min
	}
	// functions that receive the inputs slice wholesale: Apply itself + lib callees (depth 2)
	type fnParam struct {
		fn  *ssa.Function
		par ssa.Value
	}
	work := []fnParam{{apply, apply.Params[1]}}
	seen := map[*ssa.Function]bool{apply: true}
	for d := 0; d < 2; d++ {
		var next []fnParam
		for _, w := range work {
			for _, b := range w.fn.Blocks {
				for _, in := range b.Instrs {
					call, ok := in.(ssa.CallInstruction)
					if !ok {
						continue
					}
					f := call.Common().StaticCallee()
					if f == nil || !isLibFn(f) || f.Blocks == nil || seen[f] {
						continue
					}
					for i, a := range call.Common().Args {
						if a == w.par && i < len(f.Params) {
							seen[f] = true
							next = append(next, fnParam{f, f.Params[i]})
						}
					}
				}
			}
		}
		work = append(work, next...)
	}
	nIdx, nOpt := 0, 0
	badIdx, badNil := "", ""
	badIdxSite, badNilSite := "", ""
	for _, w := range work {
		for _, b := range w.fn.Blocks {
			for _, in := range b.Instrs {
				ia, ok := in.(*ssa.IndexAddr)
				if !ok || ia.X != w.par {
					continue
				}
				k, isConst := constInt(ia.Index)
				if !isConst {
					continue
				}
				nIdx++
				if k >= bound {
					badIdx = fmt.Sprintf("inputs[%d] read but the gate pads to %d inputs: index out of range for an accepted input list", k, bound)
					badIdxSite = c.pos(ia.Pos())
				}
				if k < t.min {
					continue
				}
				// optional position: every non-comparison use of the loaded value is nil-guarded
				for _, r := range *ia.Referrers() {
					ld, ok := r.(*ssa.UnOp)
					if !ok || ld.Op != token.MUL {
						continue
					}
					nOpt++
					if why, pos := c.unguardedOptionalUse(ld, w.par, k); why != "" {
						badNil = fmt.Sprintf("optional input %d: %s", k, why)
						badNilSite = c.pos(pos)
					}
				}
			}
		}
	}
	c.counts["R6.const_input_indices"] += nIdx
	c.counts["R6.optional_input_loads"] += nOpt
	c.decide(badIdx == "", "R6", "R6:T4:"+reg, firstNonEmpty(badIdxSite, c.pos(apply.Pos())),
		fmt.Sprintf("%d constant indices into inputs, all < %d", nIdx, bound), badIdx)
	c.decide(badNil == "", "R6", "R6:T5:"+reg, firstNonEmpty(badNilSite, c.pos(apply.Pos())),
		fmt.Sprintf("%d loads of optional inputs, every use other than a nil test is dominated by a non-nil edge", nOpt), badNil)
}

// sameInputLoad: v is a load of par[k].
func sameInputLoad(v ssa.Value, par ssa.Value, k int64) bool {
	ld, ok := v.(*ssa.UnOp)
	if !ok || ld.Op != token.MUL {
		return false
	}
	ia, ok := ld.X.(*ssa.IndexAddr)
	if !ok || ia.X != par {
		return false
	}
	kk, ok := constInt(ia.Index)
	return ok && kk == k
}

func nonNilInputAtoms(gs []guard, par ssa.Value, k int64) bool {
	for _, g := range gs {
		for _, a := range atomsOf(g) {
			if a.op == token.NEQ && ((sameInputLoad(a.x, par, k) && isNilConst(a.y)) || (sameInputLoad(a.y, par, k) && isNilConst(a.x))) {
				return true
			}
		}
	}
	return false
}

func (c *Ctx) unguardedOptionalUse(ld *ssa.UnOp, par ssa.Value, k int64) (string, token.Pos) {
	for _, r := range *ld.Referrers() {
		switch u := r.(type) {
		case *ssa.DebugRef:
			continue
		case *ssa.BinOp:
			if (u.Op == token.EQL || u.Op == token.NEQ) && (isNilConst(u.X) || isNilConst(u.Y)) {
				continue
			}
		case *ssa.Phi:
			for i, e := range u.Edges {
				if e != ld {
					continue
				}
				pred := u.Block().Preds[i]
				gs := guardsOf(pred)
				if iff, ok := pred.Instrs[len(pred.Instrs)-1].(*ssa.If); ok && pred.Succs[0] != pred.Succs[1] {
					gs = append(gs, guard{cond: iff.Cond, truth: pred.Succs[0] == u.Block(), at: pred})
				}
				if !nonNilInputAtoms(gs, par, k) {
					return "merged into a value that is used as present without a nil test on that path", u.Pos()
				}
			}
			continue
		}
		in := r.(ssa.Instruction)
		if !nonNilInputAtoms(guardsOf(in.Block()), par, k) {
			// handed to a library helper that tests the value for nil itself before using it
			if call, ok := in.(*ssa.Call); ok && !call.Common().IsInvoke() {
				if f := call.Common().StaticCallee(); f != nil && isLibFn(f) && f.Blocks != nil {
					safe := true
					for i, a := range call.Common().Args {
						if a == ssa.Value(ld) && (i >= len(f.Params) || !c.paramNilSafe(f, i, 0)) {
							safe = false
						}
					}
					if safe {
						continue
					}
				}
			}
			return "used without a dominating `!= nil` test (nil dereference when the input is omitted)", in.Pos()
		}
	}
	return "", token.NoPos
}

// checkT7: the generic gate: count check precedes padding precedes type check.
func (c *Ctx) checkT7(gate *ssa.Function) {
	site := c.pos(gate.Pos())
	// callees in order of first appearance along the dominator chain
	var calls []*ssa.Call
	for _, b := range gate.DomPreorder() {
		for _, in := range b.Instrs {
			if call, ok := in.(*ssa.Call); ok && call.Common().StaticCallee() != nil && isLibFn(call.Common().StaticCallee()) {
				calls = append(calls, call)
			}
		}
	}
	// roles: counter = callee that invokes GetMinInputs and GetMaxInputs; padder = callee ([]T,int)->[]T that appends nil; typer = callee invoking GetInputTypeConstraints
	var count, pad, typ *ssa.Call
	for _, call := range calls {
		f := call.Common().StaticCallee()
		inv := invokedMethods(f)
		switch {
		case inv["GetMinInputs"] && inv["GetMaxInputs"]:
			count = call
		case inv["GetInputTypeConstraints"]:
			typ = call
		case appendsOnlyNil(f):
			pad = call
		}
	}
	if count == nil || pad == nil || typ == nil {
		why := fmt.Sprintf("generic gate lacks a stage (count=%v pad=%v types=%v)", count != nil, pad != nil, typ != nil)
		if pad == nil {
			why += ": no stage extends the input list by appending explicit nil entries up to the operator's maximum (re-slicing or copying instead can present other tensors, or garbage, as the omitted optional inputs)"
		}
		c.violate("R6", "R6:T7:order", site, why)
		return
	}
	okOrder := count.Block().Dominates(pad.Block()) && pad.Block().Dominates(typ.Block()) &&
		instrBefore(count, pad) && instrBefore(pad, typ)
	c.decide(okOrder, "R6", "R6:T7:order", site, "count check dominates padding dominates dtype check", "gate stages out of order")

	// count error returns before padding: pad block guarded by count's err == nil
	okGuard := false
	for _, g := range guardsOf(pad.Block()) {
		for _, a := range atomsOf(g) {
			if a.op == token.EQL && isExtractOf(a.x, count, 1) && isNilConst(a.y) {
				okGuard = c.edgeRejectsAt(g)
			}
		}
	}
	c.decide(okGuard, "R6", "R6:T7:count-rejects", site, "a count error returns a non-nil error before any padding or type check", "count error does not stop the gate")

	// counter semantics: returns error when n<min or n>max (or != when equal); pad length = max (or min when equal)
	c.checkCounter(count.Common().StaticCallee())
	// padder: pads the gate's own parameter to the counter's pad length
	okPad := pad.Common().Args[0] == paramOrNil(gate, 1) && isExtractOf(pad.Common().Args[1], count, 0)
	c.decide(okPad, "R6", "R6:T7:pad-args", c.pos(pad.Pos()), "padding applies to the caller's list with the counter's length", "padding applies to another list or length")
	// type check is applied to the padded list with the same operator, its error is returned, success returns the padded list
	okTyp := typ.Common().Args[0] == gate.Params[0] && typ.Common().Args[1] == ssa.Value(pad)
	c.decide(okTyp, "R6", "R6:T7:type-args", c.pos(typ.Pos()), "dtype check sees the padded list and the same operator", "dtype check sees a different list/operator")
	okRet := true
	why := ""
	for _, ret := range returnsOf(gate) {
		if isNilConst(ret.Results[1]) {
			if ret.Results[0] != ssa.Value(pad) {
				okRet, why = false, "success return is not the padded list"
			}
			// both errors known nil
			nilKnown := 0
			for _, g := range guardsOf(ret.Block()) {
				for _, a := range atomsOf(g) {
					if a.op == token.EQL && isNilConst(a.y) && (isExtractOf(a.x, count, 1) || a.x == ssa.Value(typ)) {
						nilKnown++
					}
				}
			}
			if nilKnown < 2 {
				okRet, why = false, "success return not guarded by both stage errors being nil"
			}
		} else if !c.definitelyNonNilErr(ret.Results[1], ret.Block(), 0) {
			okRet, why = false, "error return may be nil"
		}
	}
	c.decide(okRet, "R6", "R6:T7:returns", site, "success returns the padded list only when both stages passed", why)
	c.checkTyper(typ.Common().StaticCallee())
	c.checkPadder(pad.Common().StaticCallee())
}

func (c *Ctx) edgeRejectsAt(g guard) bool {
	iff := g.at.Instrs[len(g.at.Instrs)-1].(*ssa.If)
	return c.edgeRejects(iff, !g.truth)
}

func instrBefore(a, b ssa.Instruction) bool {
	if a.Block() != b.Block() {
		return a.Block().Dominates(b.Block())
	}
	for _, in := range a.Block().Instrs {
		if in == a {
			return true
		}
		if in == b {
			return false
		}
	}
	return false
}

func invokedMethods(f *ssa.Function) map[string]bool {
	out := map[string]bool{}
	for _, b := range f.Blocks {
		for _, in := range b.Instrs {
			if call, ok := in.(ssa.CallInstruction); ok && call.Common().IsInvoke() {
				out[call.Common().Method.Name()] = true
			}
		}
	}
	return out
}

func appendsOnlyNil(f *ssa.Function) bool {
	n := 0
	for _, b := range f.Blocks {
		for _, in := range b.Instrs {
			call, ok := in.(*ssa.Call)
			if !ok {
				continue
			}
			bi, ok := call.Common().Value.(*ssa.Builtin)
			if !ok || bi.Name() != "append" {
				continue
			}
			n++
			for _, e := range varargElems(call.Common().Args[1]) {
				if !isNilConst(e) {
					return false
				}
			}
		}
	}
	return n > 0
}

// checkCounter: (n<min || n>max) => error; equal bounds => n != min => error; pad length is max.
func (c *Ctx) checkCounter(f *ssa.Function) {
	site := c.pos(f.Pos())
	// abstractly evaluate: for each return with nil error, collect atoms over (n, min, max) known on the path
	var nV, minV, maxV ssa.Value
	for _, b := range f.Blocks {
		for _, in := range b.Instrs {
			if call, ok := in.(*ssa.Call); ok {
				if call.Common().IsInvoke() {
					switch call.Common().Method.Name() {
					case "GetMinInputs":
						minV = call
					case "GetMaxInputs":
						maxV = call
					}
				} else if bi, ok := call.Common().Value.(*ssa.Builtin); ok && bi.Name() == "len" && call.Common().Args[0] == paramOrNil(f, 1) {
					nV = call
				}
			}
		}
	}
	if nV == nil || minV == nil || maxV == nil {
		c.violate("R6", "R6:T7:counter", site, "count stage does not compare len(inputs) with both GetMinInputs and GetMaxInputs")
		return
	}
	ok := true
	why := ""
	nOK := 0
	type retPath struct {
		gs       []guard
		res, err ssa.Value
		blk      *ssa.BasicBlock
	}
	var paths []retPath
	for _, ret := range returnsOf(f) {
		b := ret.Block()
		if len(b.Preds) > 1 {
			// merge block: judge each incoming edge separately (phi operands per edge)
			for i, pred := range b.Preds {
				gs := guardsOf(pred)
				if iff, isIf := pred.Instrs[len(pred.Instrs)-1].(*ssa.If); isIf && pred.Succs[0] != pred.Succs[1] {
					gs = append(gs, guard{cond: iff.Cond, truth: pred.Succs[0] == b, at: pred})
				}
				pick := func(v ssa.Value) ssa.Value {
					if p, isPhi := v.(*ssa.Phi); isPhi && p.Block() == b {
						return p.Edges[i]
					}
					return v
				}
				paths = append(paths, retPath{gs, pick(ret.Results[0]), pick(ret.Results[1]), pred})
			}
		} else {
			paths = append(paths, retPath{guardsOf(b), ret.Results[0], ret.Results[1], b})
		}
	}
	for _, rp := range paths {
		if !isNilConst(rp.err) {
			if !c.definitelyNonNilErr(rp.err, rp.blk, 0) {
				ok, why = false, "count stage error may be nil"
			}
			continue
		}
		nOK++
		lo, hi := false, false
		eqMM := false
		for _, g := range rp.gs {
			for _, a := range atomsOf(g) {
				switch {
				case a.op == token.EQL && ((a.x == minV && a.y == maxV) || (a.x == maxV && a.y == minV)):
					eqMM = true
				case a.op == token.EQL && a.x == nV && (a.y == minV || a.y == maxV):
					if a.y == minV {
						lo = true
					} else {
						hi = true
					}
				case a.op == token.GEQ && a.x == nV && a.y == minV:
					lo = true
				case a.op == token.LEQ && a.x == nV && a.y == maxV:
					hi = true
				}
			}
		}
		if eqMM && (lo || hi) {
			lo, hi = true, true
		}
		if !lo || !hi {
			ok, why = false, "a success path of the count stage does not establish min <= len(inputs) <= max"
		}
		if !(rp.res == maxV || (eqMM && rp.res == minV)) {
			ok, why = false, "pad length is not the operator's maximum: optional inputs would not be presented as nil"
		}
	}
	c.decide(ok && nOK > 0, "R6", "R6:T7:counter", site, "success iff min <= len(inputs) <= max; pad length = max", firstNonEmpty(why, "no success path"))
}

// checkTyper: skips nil, indexes constraints by the loop index of the padded list, membership miss => error.
func (c *Ctx) checkTyper(f *ssa.Function) {
	site := c.pos(f.Pos())
	var cons ssa.Value
	for _, b := range f.Blocks {
		for _, in := range b.Instrs {
			if call, ok := in.(*ssa.Call); ok && call.Common().IsInvoke() && call.Common().Method.Name() == "GetInputTypeConstraints" {
				if call.Common().Value == f.Params[0] {
					cons = call
				}
			}
		}
	}
	if cons == nil {
		c.violate("R6", "R6:T7:typer", site, "dtype stage does not read the operator's own constraints")
		return
	}
	okIdx, okNil, okRej := false, false, false
	for _, b := range f.Blocks {
		for _, in := range b.Instrs {
			ia, ok := in.(*ssa.IndexAddr)
			if !ok || ia.X != cons {
				continue
			}
			// index must be the same value that indexes inputs in this loop
			for _, b2 := range f.Blocks {
				for _, in2 := range b2.Instrs {
					if ib, ok := in2.(*ssa.IndexAddr); ok && ib.X == paramOrNil(f, 1) && ib.Index == ia.Index {
						okIdx = true
						// the constraints read is on the non-nil edge of that input
						for _, r := range *ib.Referrers() {
							if ld, ok := r.(*ssa.UnOp); ok && knownNonNil(ld, b) {
								okNil = true
							}
						}
					}
				}
			}
		}
	}
	// a map-lookup/membership miss on Dtype() leads to a non-nil error
	for _, b := range f.Blocks {
		if len(b.Instrs) == 0 {
			continue
		}
		iff, ok := b.Instrs[len(b.Instrs)-1].(*ssa.If)
		if !ok {
			continue
		}
		if ex, ok := iff.Cond.(*ssa.Extract); ok && ex.Index == 1 {
			if _, isLk := ex.Tuple.(*ssa.Lookup); isLk && c.edgeRejects(iff, false) {
				okRej = true
			}
		}
	}
	// the loop over the inputs visits every position: it is left only when exhausted or with an error
	nLoops := 0
	for _, h := range f.Blocks {
		isHdr := false
		for _, p := range h.Preds {
			if h.Dominates(p) {
				isHdr = true
			}
		}
		if !isHdr {
			continue
		}
		nLoops++
		if early, where := c.loopEarlyExit(h); early {
			c.violate("R6", "R6:T7:typer-all-inputs", firstNonEmpty(where, site), "the dtype loop over the inputs can be left early without an error (e.g. at the first absent optional input): the element types of the remaining inputs are never checked")
			nLoops = -1 << 20
		}
	}
	if nLoops > 0 {
		c.discharge("R6", "R6:T7:typer-all-inputs", site, "the dtype loop is left only when every input was looked at or with an error")
	} else if nLoops == 0 {
		c.violate("R6", "R6:T7:typer-all-inputs", site, "the dtype stage has no loop over the inputs")
	}
	c.decide(okIdx && okNil && okRej, "R6", "R6:T7:typer", site,
		"constraints[i] is read with the index of inputs[i], only for non-nil inputs; a dtype outside the row returns an error",
		fmt.Sprintf("dtype stage malformed (same-index=%v nil-skip=%v miss-rejects=%v)", okIdx, okNil, okRej))
}

func (c *Ctx) checkPadder(f *ssa.Function) {
	site := c.pos(f.Pos())
	// loop `for len(inputs) < length { append nil }` and the result is (a phi of) the appended param
	okLoop := false
	for _, b := range f.Blocks {
		for _, in := range b.Instrs {
			call, ok := in.(*ssa.Call)
			if !ok {
				continue
			}
			if bi, ok := call.Common().Value.(*ssa.Builtin); ok && bi.Name() == "append" {
				for _, g := range guardsOf(b) {
					for _, a := range atomsOf(g) {
						if a.op == token.LSS && a.y == paramOrNil(f, 1) {
							okLoop = true
						}
					}
				}
			}
		}
	}
	c.decide(okLoop && appendsOnlyNil(f), "R6", "R6:T7:padder", site, "appends nil while len < length; supplied tensors keep their positions", "padding stage does not append nil up to the requested length")
}

// paramNilSafe: every use of parameter i of f other than a nil test lies on the non-nil edge of a test of that
// parameter (or hands it to a helper for which the same holds).
func (c *Ctx) paramNilSafe(f *ssa.Function, i int, depth int) bool {
	if depth > 2 || i >= len(f.Params) {
		return false
	}
	par := f.Params[i]
	for _, r := range *par.Referrers() {
		switch u := r.(type) {
		case *ssa.DebugRef:
			continue
		case *ssa.BinOp:
			if (u.Op == token.EQL || u.Op == token.NEQ) && (isNilConst(u.X) || isNilConst(u.Y)) {
				continue
			}
		}
		in := r.(ssa.Instruction)
		guarded := false
		for _, g := range guardsOf(in.Block()) {
			for _, a := range atomsOf(g) {
				if a.op == token.NEQ && ((a.x == ssa.Value(par) && isNilConst(a.y)) || (a.y == ssa.Value(par) && isNilConst(a.x))) {
					guarded = true
				}
			}
		}
		if guarded {
			continue
		}
		if call, ok := in.(*ssa.Call); ok && !call.Common().IsInvoke() {
			if g := call.Common().StaticCallee(); g != nil && isLibFn(g) && g.Blocks != nil {
				safe := true
				for j, a := range call.Common().Args {
					if a == ssa.Value(par) && !c.paramNilSafe(g, j, depth+1) {
						safe = false
					}
				}
				if safe {
					continue
				}
			}
		}
		return false
	}
	return true
}

// paramOrNil: parameter i of f, or nil when f has fewer parameters (a comparison with it is then never true).
func paramOrNil(f *ssa.Function, i int) ssa.Value {
	if f == nil || i >= len(f.Params) {
		return nil
	}
	return f.Params[i]
}
