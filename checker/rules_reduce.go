package main

import (
	"fmt"
	"go/types"
	"os"
	"sort"
	"strings"

	"golang.org/x/tools/go/ssa"
)

// R34 — gorgonia's axis reductions are only reached through the audited per-axis driver
//
// gorgonia.org/tensor@v0.9.24 defaultengine_mapreduce.go l.135 (OptimizedReduce): besides the first axis
// (ReduceFirst) and the last axis (ReduceLast) there is one "default" case that reduces with
// (dim0, dimSize, outerStride = Strides()[0], stride = Strides()[axis]): it treats the tensor as
// (dim0, extent, inner) and ignores every axis between the first and the reduced one. That is right for the
// second axis and for nothing behind it: Max/Min/Sum along axis 2 of a (1,2,3,2) tensor read across rows
// (wrong values), along axis 2 of (1,2,1,1) they index out of range (panic). ReduceMax/ReduceMin handed user
// axes straight to Dense.Max/Min.
//
//	R34a  who-may-call: a gorgonia reduction (Max, Min, Sum as method or function) called with an axis, or
//	      taken as a function value, appears in library code only inside ops.ReduceAxes, respectively as the
//	      third argument of a call to it.
//	R34b  the driver's contract, by a finite table over shapes of rank 1..4 and axis lists (unsorted, with a
//	      duplicate): every reduction it performs is on a tensor of rank 3 along axis 1, the views are
//	      (prod(shape[:a]), shape[a], prod(shape[a+1:])) for the distinct axes in descending order, no
//	      axes / all axes is one reduction without axes, and the result has the input's shape without the
//	      reduced axes. The argument tensor keeps its shape.
func ruleReduceDriver(c *Ctx, prop string) {
	var driver *ssa.Function
	for _, f := range c.libFns {
		if fnPkgPath(f) == pkgOps && f.Name() == "ReduceAxes" && f.Parent() == nil && f.Signature.Recv() == nil {
			driver = f
		}
	}
	// ---- R34a
	nSites := 0
	// a named forwarder func(t, axes...) { return t.Max(axes...) } stands for the reduction it forwards to: its
	// uses are judged like uses of the gorgonia function itself
	forwarder := map[*ssa.Function]bool{}
	for _, f := range c.libFns {
		if reductionForwarder(f) {
			forwarder[f] = true
		}
	}
	for _, f := range c.libFns {
		for _, b := range f.Blocks {
			for _, in := range b.Instrs {
				if _, isDbg := in.(*ssa.DebugRef); isDbg {
					continue
				}
				// function values
				var ops_ []*ssa.Value
				for _, o := range in.Operands(ops_) {
					if o == nil || *o == nil {
						continue
					}
					fv, ok := (*o).(*ssa.Function)
					if !ok || !(forwarder[fv] || (fnPkgPath(fv) == pkgTensor && isReductionName(strings.TrimSuffix(fv.Name(), "$thunk")))) {
						continue
					}
					if cl, isCall := in.(ssa.CallInstruction); isCall && cl.Common().Value == ssa.Value(fv) {
						if forwarder[fv] && f != driver {
							nSites++
							c.violate("R34", fmt.Sprintf("R34a:reduction-call:%s:%s", fname(f), fv.Name()), c.pos(in.Pos()), "the reduction forwarder "+fv.Name()+" is called outside ops.ReduceAxes: gorgonia only reduces the first, the second and the last axis of a tensor correctly")
						}
						continue // a direct call of the gorgonia function: judged below
					}
					nSites++
					okUse := false
					if cl, isCall := in.(*ssa.Call); isCall && driver != nil && cl.Common().StaticCallee() == driver && len(cl.Common().Args) == 3 && cl.Common().Args[2] == ssa.Value(fv) {
						okUse = true
					}
					if cl, isCall := in.(*ssa.Call); isCall && !okUse && driver != nil {
						// handed to an unexported helper that does nothing with it but hand it to ops.ReduceAxes
						if h := cl.Common().StaticCallee(); h != nil && isLibFn(h) && inlineableHelper(h) {
							for k, a := range cl.Common().Args {
								if a == ssa.Value(fv) && c.paramOnlyToDriver(h, k, driver, 0) {
									okUse = true
								}
							}
						}
					}
					key := fmt.Sprintf("R34a:reduction-value:%s:%s", fname(f), fv.Name())
					c.decide(okUse, "R34", key, c.pos(in.Pos()), "the reduction is handed to ops.ReduceAxes", "gorgonia's "+fv.Name()+" is taken as a function value outside a call of ops.ReduceAxes: it may be applied along an axis gorgonia reduces wrongly (any axis between the second and the last)")
				}
				cl, ok := in.(*ssa.Call)
				if !ok {
					continue
				}
				name, _ := tensorMethod(cl)
				nAxisArgs := 0
				if name == "" {
					if sc := cl.Common().StaticCallee(); sc != nil && fnPkgPath(sc) == pkgTensor && sc.Signature.Recv() == nil && isReductionName(sc.Name()) {
						name = sc.Name()
						nAxisArgs = -1 // function form: operand, then axes
					}
				}
				if !isReductionName(name) {
					continue
				}
				args := cl.Common().Args
				last := args[len(args)-1]
				hasAxes := true
				if isNilConst(last) {
					hasAxes = false // no variadic axes given
				}
				_ = nAxisArgs
				if !hasAxes {
					continue
				}
				nSites++
				key := fmt.Sprintf("R34a:reduction-call:%s:%s", fname(f), name)
				if forwarder[f] {
					c.discharge("R34", key, c.pos(cl.Pos()), "a forwarder of the reduction (operand and axes passed on as they are); its uses are judged as uses of the reduction")
					continue
				}
				c.decide(f == driver, "R34", key, c.pos(cl.Pos()), "inside the audited driver",
					"gorgonia's "+name+" is called with axes outside ops.ReduceAxes: gorgonia only reduces the first, the second and the last axis of a tensor correctly (wrong values or an index panic for an axis in between, e.g. axis 2 of a rank-4 tensor)")
			}
		}
	}
	c.counts["R34.reduction_sites"] += nSites
	if driver == nil {
		if nSites == 0 {
			c.discharge("R34", "R34a:no-axis-reductions", "", "no gorgonia reduction is called with axes or taken as a value in library code")
		}
		return
	}
	// ---- R34b: the driver by table
	type red struct {
		shape, axes []int64
	}
	var maxFn *ssa.Function
	if pk := c.prog.ImportedPackage(pkgTensor); pk != nil {
		if t := pk.Type("Dense"); t != nil {
			maxFn = c.prog.LookupMethod(typesPointerTo(t.Type()), pk.Pkg, "Max")
		}
	}
	if maxFn == nil {
		c.undecided("R34", "R34b:driver", c.pos(driver.Pos()), "(*tensor.Dense).Max not found in the program")
		return
	}
	shapes := [][]int64{{5}, {2, 3}, {3, 1}, {2, 3, 4}, {1, 2, 3}, {2, 3, 4, 5}, {3, 2, 1, 2}, {1, 2, 3, 2}}
	if c.tier == "thorough" {
		shapes = append(shapes, []int64{2, 3, 4, 5, 6}, []int64{1, 1, 2, 1, 3}, []int64{2, 2}, []int64{1}, []int64{4, 1, 1, 2})
	}
	bad, lost, cells := "", "", 0
	badPos := c.pos(driver.Pos())
	for _, sh := range shapes {
		r := int64(len(sh))
		var lists [][]int64
		lists = append(lists, []int64{})
		for _, sub := range subsetsOf(r) {
			lists = append(lists, sub)
			if len(sub) > 1 {
				rev := make([]int64, len(sub))
				for i := range sub {
					rev[len(sub)-1-i] = sub[i]
				}
				lists = append(lists, rev, append(append([]int64{}, sub...), sub[0]))
			}
		}
		for _, axes := range lists {
			cells++
			heap := &pheap{lists: map[int64][]pval{}, poison: map[int64]bool{}}
			mk := func(l []int64) pval {
				pl := make([]pval, len(l))
				for i, v := range l {
					pl[i] = pval{k: pInt, i: v}
				}
				return heap.alloc(pl)
			}
			tshape := mk(sh)
			t := pval{k: pShaped, i: 0, j: tshape.i}
			var seq []red
			p := &pinterp{c: c, budget: 400000, trace: os.Getenv("R34TRACE") != ""}
			p.onReduce = func(fn *ssa.Function, call *ssa.Call, name string, shape, ax []int64) {
				seq = append(seq, red{append([]int64{}, shape...), append([]int64{}, ax...)})
			}
			// tensor.New(WithBacking(t.Data()), WithShape(shape...)) inside the driver: a tensor of that shape
			p.rankOf = func(int64) (int64, bool) { return 0, false }
			res, h := p.run(driver, []pval{t, mk(axes), {k: pFunc, fn: maxFn}}, 0, heap)
			desc := fmt.Sprintf("shape %s, axes %s", fmtInts(sh), fmtInts(axes))
			// expected
			uniq := map[int64]bool{}
			for _, a := range axes {
				uniq[a] = true
			}
			var desc_ []int64
			for a := range uniq {
				desc_ = append(desc_, a)
			}
			sort.Slice(desc_, func(i, j int) bool { return desc_[i] > desc_[j] })
			var want, wantAll []red
			cur := append([]int64{}, sh...)
			for _, a := range desc_ {
				want = append(want, red{[]int64{prodInts(cur[:a]), cur[a], prodInts(cur[a+1:])}, []int64{1}})
				cur = append(append([]int64{}, cur[:a]...), cur[a+1:]...)
			}
			if len(desc_) == 0 || int64(len(desc_)) == r {
				// everything goes: one reduction without axes (or, when all axes are listed, one per axis)
				wantAll = []red{{sh, nil}}
				cur = []int64{}
				if len(desc_) == 0 {
					want = wantAll
				}
			}
			render := func(l []red) string {
				var parts []string
				for _, x := range l {
					parts = append(parts, fmtInts(x.shape)+" along "+fmtInts(x.axes))
				}
				return strings.Join(parts, "; ")
			}
			if h == nil || len(res) != 2 {
				// the walk forked on a value it does not know or stopped: what it saw on the way is not a sequence
				if lost == "" {
					lost = fmt.Sprintf("with %s the driver cannot be followed to a single outcome", desc)
				}
				continue
			}
			if render(seq) != render(want) && (wantAll == nil || render(seq) != render(wantAll)) {
				if bad == "" {
					bad = fmt.Sprintf("with %s the driver reduces %s; the audited scheme is %s", desc, firstNonEmpty(render(seq), "(nothing the walk could follow)"), render(want))
				}
				continue
			}
			if h == nil || len(res) != 2 || res[0].k != pShaped {
				if bad == "" {
					bad = fmt.Sprintf("with %s the result of the driver could not be followed", desc)
				}
				continue
			}
			got := h.lists[res[0].j]
			gl := make([]int64, len(got))
			okAll := got != nil
			for i, e := range got {
				if e.k != pInt {
					okAll = false
				}
				gl[i] = e.i
			}
			if !okAll || fmtInts(gl) != fmtInts(cur) {
				if bad == "" {
					bad = fmt.Sprintf("with %s the result has shape %s, not %s", desc, fmtInts(gl), fmtInts(cur))
				}
				continue
			}
			// the argument keeps its shape
			if al := h.lists[tshape.i]; al == nil || len(al) != len(sh) {
				if bad == "" {
					bad = fmt.Sprintf("with %s the shape of the argument tensor is changed by the driver", desc)
				}
			} else {
				for i, e := range al {
					if e.k != pInt || e.i != sh[i] {
						if bad == "" {
							bad = fmt.Sprintf("with %s the shape of the argument tensor is changed by the driver", desc)
						}
					}
				}
			}
		}
	}
	c.counts["R34.driver_cells"] += cells
	if bad == "" && lost != "" {
		c.undecided("R34", "R34b:driver:ops.ReduceAxes", badPos, lost)
		return
	}
	c.decide(bad == "", "R34", "R34b:driver:ops.ReduceAxes", badPos,
		fmt.Sprintf("%d table cells (shapes of rank 1..4, 1..5 in the thorough tier, x axis lists, unsorted and with a duplicate): every reduction is along axis 1 of the (outer, extent, inner) view, distinct axes in descending order, the result has the reduced shape, the argument keeps its shape", cells), bad)
}

func typesPointerTo(t types.Type) types.Type { return types.NewPointer(t) }

// R35 — Reshape's shape arithmetic by finite table (C07: "0 copies the input dimension and a single -1 is
// inferred ... element-count mismatch, two -1 entries ... yields an error, never a tensor").
//
// Cells: input shapes of rank 0..4 x target lists built from the factorizations of the element count, with a
// 0 at every position where ONNX allows it (position < input rank), one -1 at every position, both, and the
// invalid requests: two -1, a product that does not match, a 0 beyond the input's rank. The partial
// interpreter binds inputs[1] to the target list and inputs[0] to the shape and reports
//
//	refused      a valid request runs into a decided error branch / panic,
//	wrong-shape  gorgonia's Reshape is reached with another list than the ONNX result,
//	accepted     an invalid request reaches gorgonia's Reshape with a list it accepts (all entries > 0 and the
//	             right product).
func ruleReshapeTable(c *Ctx, prop string) {
	oi := c.opByName("Reshape")
	if oi == nil {
		c.undecided("R35", "R35:reshape-table", "", "operator Reshape not found")
		return
	}
	apply := oi.methods["Apply"]
	ar := &axisRun{c: c, seen: map[string]bool{}}
	args := []pval{{k: pRecv}, {k: pInputs}}
	shapes := [][]int64{{}, {6}, {2, 3}, {3, 2, 2}, {1, 6}, {2, 1, 3}, {2, 3, 1, 2}}
	if c.tier == "thorough" {
		shapes = append(shapes, []int64{4, 3, 2}, []int64{1}, []int64{2, 2, 2, 3}, []int64{5, 1, 1})
	}
	var factor func(n int64, parts int) [][]int64
	factor = func(n int64, parts int) [][]int64 {
		if parts == 1 {
			return [][]int64{{n}}
		}
		var out [][]int64
		for d := int64(1); d <= n; d++ {
			if n%d == 0 {
				for _, rest := range factor(n/d, parts-1) {
					out = append(out, append([]int64{d}, rest...))
				}
			}
		}
		return out
	}
	cells := 0
	run := func(sh, target, want []int64, refuse bool, what string) {
		cell := &axisCell{rank: int64(len(sh)), extents: sh, lists: map[int64][]int64{1: target}, refuse: refuse, desc: fmt.Sprintf("shape = %s on an operand of shape %s%s", fmtInts(target), fmtInts(sh), what)}
		if !refuse {
			cell.shape = want
		}
		cells++
		ar.run(apply, args, cell, false)
	}
	for _, sh := range shapes {
		n := prodInts(sh)
		for parts := 1; parts <= 3; parts++ {
			for _, f := range factor(n, parts) {
				run(sh, f, f, false, "")
				for i := range f {
					// a single -1
					t := append([]int64{}, f...)
					t[i] = -1
					run(sh, t, f, false, "")
					// a 0 where it copies the very extent the factorization has there
					if i < len(sh) && sh[i] == f[i] {
						z := append([]int64{}, f...)
						z[i] = 0
						run(sh, z, f, false, "")
						for j := range f {
							if j != i {
								zz := append([]int64{}, z...)
								zz[j] = -1
								run(sh, zz, f, false, "")
							}
						}
					}
					// invalid: two -1
					for j := i + 1; j < len(f); j++ {
						t2 := append([]int64{}, f...)
						t2[i], t2[j] = -1, -1
						run(sh, t2, nil, true, " (two -1 entries)")
					}
				}
				// invalid: wrong element count
				bad := append([]int64{}, f...)
				bad[0]++
				run(sh, bad, nil, true, " (element count mismatch)")
			}
		}
		// invalid: 0 beyond the rank of the input
		if len(sh) < 3 {
			t := make([]int64, len(sh)+1)
			for i := range t {
				t[i] = 1
			}
			t[0] = n
			t[len(sh)] = 0
			run(sh, t, nil, true, " (0 at a position the input does not have)")
		}
	}
	sort.Slice(ar.hits, func(i, j int) bool {
		if ar.hits[i].kind != ar.hits[j].kind {
			return ar.hits[i].kind < ar.hits[j].kind
		}
		return ar.hits[i].pos < ar.hits[j].pos
	})
	per := map[string]int{}
	for _, h := range ar.hits {
		per[h.kind]++
		key := fmt.Sprintf("R35:reshape:%s@%s#%d", h.kind, fname(h.fn), per[h.kind])
		pos := h.pos
		switch h.kind {
		case "refused":
			c.violate("R35", key, c.pos(pos), "a valid request is refused: with "+h.cell.desc+" this branch is taken and it always ends in an error")
		case "panic":
			c.violate("R35", key, c.pos(pos), "a valid request panics: with "+h.cell.desc+": "+h.got)
		case "wrong-shape":
			c.violate("R35", key, c.pos(pos), fmt.Sprintf("with %s the shape handed to gorgonia's Reshape is %s, ONNX prescribes %s", h.cell.desc, h.got, fmtInts(h.cell.shape)))
		case "accepted":
			c.violate("R35", key, c.pos(pos), fmt.Sprintf("an invalid request is answered with a tensor: with %s gorgonia's Reshape is reached with the acceptable shape %s instead of an error", h.cell.desc, h.got))
		}
	}
	c.counts["R35.cells"] += cells
	c.counts["R35.reshape_arguments_evaluated"] += ar.reshapes
	if len(ar.hits) > 0 {
		return
	}
	if ar.reshapes == 0 {
		c.undecided("R35", "R35:reshape-table", c.pos(apply.Pos()), "the list handed to gorgonia's Reshape could not be evaluated for any cell: the way the shape input reaches it is not recognised")
		return
	}
	c.discharge("R35", "R35:reshape-table", c.pos(apply.Pos()), fmt.Sprintf("%d cells (factorizations of the element count with 0 and -1 at every allowed position; two -1, count mismatch, 0 beyond the rank as invalid requests): %d Reshape arguments evaluated, all as ONNX prescribes; no invalid request reaches Reshape with an acceptable shape", cells, ar.reshapes))
}

// R36 — the broadcast helpers by finite table (C14; C03, C16 through ApplyBinaryOperation)
//
// "Two shapes broadcast iff, aligned at their last axes, every pair of extents is equal or contains a 1; the
// operands then both have the elementwise-maximum shape; unidirectional broadcasting additionally requires the
// result shape to equal the first operand's; incompatible shapes produce an error; the sources are never
// modified." The partial interpreter walks ops.MultidirectionalBroadcast / ops.UnidirectionalBroadcast for every
// ordered pair of shapes of rank 0..3 with extents in {1,2,3,4} (rank 4 in the thorough tier), with tensors
// modelled by their live shape and gorgonia's Clone / Reshape / Repeat by their shape contracts (Repeat
// multiplies the extent of the axis). It reports
//
//	tiled      Repeat applied to an axis whose extent is not 1 (elements tiled instead of a refusal),
//	wrong      compatible shapes: an error, or result shapes other than the broadcast shape,
//	accepted   incompatible shapes: no error,
//	modified   the shape of a source operand changed.
//
// What it does not decide: that Repeat places the elements as ONNX prescribes (gorgonia's contract).
func ruleBroadcastTable(c *Ctx, prop string) {
	var multi, uni *ssa.Function
	for _, f := range c.libFns {
		if fnPkgPath(f) != pkgOps || f.Parent() != nil || f.Signature.Recv() != nil {
			continue
		}
		switch f.Name() {
		case "MultidirectionalBroadcast":
			multi = f
		case "UnidirectionalBroadcast":
			uni = f
		}
	}
	if multi == nil || uni == nil {
		c.undecided("R36", "R36:broadcast-table", "", "ops.MultidirectionalBroadcast / ops.UnidirectionalBroadcast not found")
		return
	}
	maxRank := 3
	if c.tier == "thorough" {
		maxRank = 4
	}
	var shapes [][]int64
	var gen func(cur []int64, r int)
	gen = func(cur []int64, r int) {
		if len(cur) == r {
			shapes = append(shapes, append([]int64{}, cur...))
			return
		}
		for e := int64(1); e <= 4; e++ { // 2 and 4: an extent that is a multiple of the other one must be refused too
			gen(append(cur, e), r)
		}
	}
	for r := 0; r <= maxRank; r++ {
		gen(nil, r)
	}
	bshape := func(a, b []int64) ([]int64, bool) {
		n := len(a)
		if len(b) > n {
			n = len(b)
		}
		out := make([]int64, n)
		for i := 0; i < n; i++ {
			x, y := int64(1), int64(1)
			if j := len(a) - n + i; j >= 0 {
				x = a[j]
			}
			if j := len(b) - n + i; j >= 0 {
				y = b[j]
			}
			switch {
			case x == y:
				out[i] = x
			case x == 1:
				out[i] = y
			case y == 1:
				out[i] = x
			default:
				return nil, false
			}
		}
		return out, true
	}
	for _, ent := range []struct {
		fn   *ssa.Function
		name string
		uni  bool
	}{{multi, "multidirectional", false}, {uni, "unidirectional", true}} {
		if prop == "C10" && ent.name != "unidirectional" {
			continue // PRelu's slope is broadcast unidirectionally; the other helper is none of C10's business
		}
		bad, badPos, cells, evaluated := "", c.pos(ent.fn.Pos()), 0, 0
		covered := map[*ssa.Function]bool{}
		for _, a := range shapes {
			for _, b := range shapes {
				cells++
				heap := &pheap{lists: map[int64][]pval{}, poison: map[int64]bool{}}
				mk := func(l []int64) pval {
					pl := make([]pval, len(l))
					for i, v := range l {
						pl[i] = pval{k: pInt, i: v}
					}
					return heap.alloc(pl)
				}
				la, lb := mk(a), mk(b)
				iota_ := func(n int64) []int64 {
					l := make([]int64, n)
					for i := range l {
						l[i] = int64(i)
					}
					return l
				}
				A, B := pval{k: pShaped, i: 0, j: la.i, m: mk(iota_(prodInts(a))).i}, pval{k: pShaped, i: 1, j: lb.i, m: mk(iota_(prodInts(b))).i}
				p := &pinterp{c: c, budget: 300000, objects: true}
				tiled := ""
				p.onRepeat = func(fn *ssa.Function, call *ssa.Call, shape []int64, axis, n int64) {
					if shape[axis] != 1 && tiled == "" {
						tiled = fmt.Sprintf("tensor.Repeat along axis %d of a tensor of shape %s (extent %d, not 1) at %s", axis, fmtInts(shape), shape[axis], c.pos(call.Pos()))
					}
				}
				res, h := p.run(ent.fn, []pval{A, B}, 0, heap)
				for f := range p.visited {
					covered[f] = true
				}
				desc := fmt.Sprintf("%s broadcast of shapes %s and %s", ent.name, fmtInts(a), fmtInts(b))
				want, ok := bshape(a, b)
				if ent.uni && ok && fmtInts(want) != fmtInts(a) {
					ok = false
				}
				set := func(s string) {
					if bad == "" {
						bad = s
					}
				}
				if tiled != "" && len(res) == 3 && h != nil {
					set(desc + ": " + tiled + " — the elements are tiled instead of the shapes being refused")
					continue
				}
				if len(res) != 3 || h == nil {
					// (a Repeat seen on a walk that forked on a value it does not know is not an observation)
					if os.Getenv("R36DEBUG") != "" {
						fmt.Printf("R36DEBUG unfollowed %s: res=%v heap=%v aborted=%v\n", desc, res, h != nil, p.aborted)
					}
					continue // the walk could not follow this cell to a single outcome: nothing is claimed for it
				}
				shapeOf := func(v pval) ([]int64, bool) {
					if v.k != pShaped {
						return nil, false
					}
					l := h.lists[v.j]
					if l == nil {
						return nil, false
					}
					out := make([]int64, len(l))
					for i, e := range l {
						if e.k != pInt {
							return nil, false
						}
						out[i] = e.i
					}
					return out, true
				}
				if os.Getenv("R36DEBUG") != "" && !nonNilKind(res[2].k) && res[2].k != pNil {
					fmt.Printf("R36DEBUG undecided %s: res=%v\n", desc, res)
				}
				if nonNilKind(res[2].k) {
					res[2].k = pNonNil
				}
				switch res[2].k {
				case pNonNil:
					evaluated++
					if ok {
						set(desc + ": refused with an error although the shapes are compatible")
					}
				case pNil:
					evaluated++
					if !ok {
						set(desc + ": accepted without an error although the shapes are incompatible")
						continue
					}
					sa, oka := shapeOf(res[0])
					sb, okb := shapeOf(res[1])
					if !oka || !okb {
						evaluated--
						continue
					}
					if fmtInts(sa) != fmtInts(want) || fmtInts(sb) != fmtInts(want) {
						set(fmt.Sprintf("%s: the results have shapes %s and %s, the broadcast shape is %s", desc, fmtInts(sa), fmtInts(sb), fmtInts(want)))
						continue
					}
					// the element at every index is the source element at that index, stretched axes pinned to 0
					for k, rv := range []pval{res[0], res[1]} {
						src := [][]int64{a, b}[k]
						content := h.lists[rv.m]
						if rv.m == 0 || content == nil || int64(len(content)) != prodInts(want) {
							continue
						}
						wst := make([]int64, len(want))
						acc := int64(1)
						for i := len(want) - 1; i >= 0; i-- {
							wst[i] = acc
							acc *= want[i]
						}
						sst := make([]int64, len(src))
						acc = 1
						for i := len(src) - 1; i >= 0; i-- {
							sst[i] = acc
							acc *= src[i]
						}
						off := len(want) - len(src)
						for f := int64(0); f < int64(len(content)); f++ {
							exp := int64(0)
							for i := range want {
								cidx := (f / wst[i]) % want[i]
								if j := i - off; j >= 0 && src[j] != 1 {
									exp += cidx * sst[j]
								}
							}
							if content[f].k != pInt {
								break
							}
							if content[f].i != exp {
								set(fmt.Sprintf("%s: element %d of result operand %d is source element %d, the broadcast definition asks for source element %d (stretched axes pinned to 0)", desc, f, k, content[f].i, exp))
								break
							}
						}
					}
				}
				for _, src := range []struct {
					l  pval
					sh []int64
				}{{la, a}, {lb, b}} {
					cur := h.lists[src.l.i]
					same := cur != nil && len(cur) == len(src.sh)
					if same {
						for i, e := range cur {
							if e.k != pInt || e.i != src.sh[i] {
								same = false
							}
						}
					}
					if !same {
						set(desc + ": the shape of a source operand is changed")
					}
				}
			}
		}
		key := "R36:broadcast-table:" + ent.name
		c.counts["R36.cells"] += cells
		c.counts["R36.cells_evaluated"] += evaluated
		switch {
		case bad != "":
			c.violate("R36", key, badPos, bad)
		case evaluated < cells:
			c.undecided("R36", key, badPos, fmt.Sprintf("only %d of %d shape pairs could be followed to a single outcome: the helpers' factoring is not recognised by the interpreter", evaluated, cells))
		default:
			c.discharge("R36", key, badPos, fmt.Sprintf("%d ordered shape pairs (rank 0..%d, extents 1..4): compatible pairs yield the broadcast shape for both operands, incompatible pairs an error, Repeat only ever stretches an axis of extent 1, the sources keep their shapes", cells, maxRank))
			if c.tableCovered == nil {
				c.tableCovered = map[string]string{}
			}
			for f := range covered {
				if _, seen := c.tableCovered[fname(f)]; !seen {
					c.tableCovered[fname(f)] = key
				}
			}
			c.tableCovered["table:"+ent.name] = key
		}
	}
}

// applyTableOverrides: a structural rule that cannot recognise the factoring of a function says "violated" or
// "undischarged" — which is a false alarm when the code is right. Where a finite table has walked that very
// function and found the clause to hold for every cell, the table decides: the structural obligation becomes
// a note that names the table. Nothing is overridden when the table itself failed or did not run.
func (c *Ctx) applyTableOverrides(from int) {
	if len(c.tableCovered) == 0 {
		return
	}
	multi, uni := c.tableCovered["table:multidirectional"], c.tableCovered["table:unidirectional"]
	for i := from; i < len(c.obls); i++ {
		o := &c.obls[i]
		if o.Control || (o.Status != StViolated && o.Status != StUndecided) {
			continue
		}
		table := ""
		switch {
		case strings.HasPrefix(o.Key, "R10:repeat:"), strings.HasPrefix(o.Key, "R23:axis-loop:"):
			fn := strings.TrimPrefix(strings.TrimPrefix(o.Key, "R10:repeat:"), "R23:axis-loop:")
			if j := strings.Index(fn, "#"); j >= 0 {
				fn = fn[:j]
			}
			table = c.tableCovered[fn]
		case o.Key == "R23:floor", o.Key == "R20:adddims:ones-prepended":
			if multi != "" && uni != "" {
				table = multi + " and " + uni
			}
		case strings.HasPrefix(o.Key, "R20:multidir:"):
			table = multi
		case strings.HasPrefix(o.Key, "R20:unidir:"):
			table = uni
		case o.Key == "R5:anchor:applyOp", o.Key == "R5:M1", o.Key == "R5:M2", o.Key == "R5:M3", o.Key == "R5:M4", o.Key == "R5:M5",
			o.Key == "R5:M6", o.Key == "R5:M7", o.Key == "R5:M8", o.Key == "R5:M13",
			o.Key == "R17:V1", o.Key == "R17:V2", o.Key == "R17:V3", o.Key == "R17:V4", o.Key == "R17:V5", o.Key == "R17:V7", o.Key == "R17:V9":
			table = c.tableCovered["table:run"]
		case strings.HasPrefix(o.Key, "R9a:Gather.inputs[1]:") || strings.HasPrefix(o.Key, "R9b:Gather.inputs[1]:"):
			// negative spellings and indices out of range are among the Gather table's cells
			table = c.tableCovered["table:gather"]
		case strings.HasPrefix(o.Key, "R9a:"), strings.HasPrefix(o.Key, "R9b:"):
			// R9a:<label>:<kind>@<fn> — the finite table of that axis source
			rest := o.Key[4:]
			if j := strings.LastIndex(rest, "@"); j >= 0 {
				rest = rest[:j]
			}
			if j := strings.LastIndex(rest, ":"); j >= 0 {
				table = c.tableCovered["R9f:"+rest[:j]]
			}
		case strings.HasPrefix(o.Key, "R15:") && (strings.Contains(o.Key, ":binary.") || strings.Contains(o.Key, ":make#") || strings.Contains(o.Key, ":index#") || strings.Contains(o.Key, ":slice#")):
			// R15:<function>:<kind>#n inside a function that a raw reader table walked in full for every payload
			// length 0..2w+1 without a panic
			rest := strings.TrimPrefix(o.Key, "R15:")
			if j := strings.LastIndex(rest, ":"); j >= 0 {
				table = c.tableCovered["reader:"+rest[:j]]
			}
		case strings.HasPrefix(o.Key, "R9c:") && strings.HasSuffix(o.Key, ":duplicates"):
			// R9c:<label>:duplicates - the axis table of that source has the requests that name an axis twice (as
			// they are, and in the other spelling) among its must-refuse cells
			table = c.tableCovered["R9f:"+strings.TrimSuffix(strings.TrimPrefix(o.Key, "R9c:"), ":duplicates")+":duplicates"]
		case strings.HasPrefix(o.Key, "R9c:") && strings.HasSuffix(o.Key, ":activations-length"):
			table = c.tableCovered["table:recurrent:"+strings.TrimSuffix(strings.TrimPrefix(o.Key, "R9c:"), ":activations-length")]
		case strings.HasPrefix(o.Key, "R12:P"):
			// R12:P<n>:<op>:<clause> and R12:P<n>:floor:<op>
			parts := strings.Split(o.Key, ":")
			for _, nm := range []string{"RNN", "GRU", "LSTM"} {
				for _, pt := range parts[2:] {
					if pt == nm || strings.Contains(pt, "opset13."+nm+")") {
						table = c.tableCovered["table:recurrent:"+nm]
					}
				}
			}
		case strings.HasPrefix(o.Key, "R20:keepdims:"), strings.HasPrefix(o.Key, "R9d:") && strings.HasSuffix(o.Key, ":axes-preserved"):
			// the axes tables of ReduceMax / ReduceMin compare the axes entering the reduction and the kept shape
			op := strings.TrimPrefix(o.Key, "R20:keepdims:")
			if strings.HasPrefix(o.Key, "R9d:") {
				op = strings.TrimSuffix(strings.TrimPrefix(o.Key, "R9d:"), ":axes-preserved")
			}
			if op == "ReduceMax" || op == "ReduceMin" {
				table = c.tableCovered["R9f:"+op+".axes"]
			}
		case strings.HasPrefix(o.Key, "R7:softmax-kernel:"):
			// the axis tables of Softmax and LogSoftmax watch for exactly this call (kind softmax-kernel)
			if a, b := c.tableCovered["R9f:Softmax.axis"], c.tableCovered["R9f:LogSoftmax.axis"]; a != "" && b != "" {
				table = a + " and " + b
			}
		case o.Key == "R5:M10":
			table = c.tableCovered["table:opset"]
		case o.Key == "R33:optional-attr:LinearRegressor.intercepts":
			// cells without the attribute are among the table's: a use of the nil tensor would end them in a panic
			table = c.tableCovered["table:linear-regressor"]
		case o.Key == "R7:unary:PRelu":
			table = c.tableCovered["table:prelu"]
		case o.Key == "R7:unary:PRelu":
			table = c.tableCovered["table:prelu"]
		case o.Key == "R20:argmax:int64":
			// every cell of the ArgMax table checks that the result holds int64 positions
			table = c.tableCovered["table:reduction:ArgMax"]
		case o.Key == "R16:shape:Gemm":
			table = c.tableCovered["table:gemm"]
		case o.Key == "R16:shape:Scaler":
			table = c.tableCovered["table:scaler"]
		case o.Key == "R16:shape:LinearRegressor":
			table = c.tableCovered["table:linear-regressor"]
		case strings.HasPrefix(o.Key, "R16:matmul:"):
			// vector promotion and its undoing, which axes are stretched, operand order of the per-batch product,
			// the result shape: all visible in the elements of the provenance table
			table = c.tableCovered["table:matmul"]
		case strings.HasPrefix(o.Key, "R31:gather:"):
			// offset of negative indices, output shape, operand roles, block placement: all visible in the elements
			table = c.tableCovered["table:gather"]
			if table == "" && o.Key == "R31:gather:G2" {
				// the output shape alone: the axis table of Gather prescribes it for index tensors of rank 0..2
				table = c.tableCovered["R9f:Gather.axis:ret"]
				if table == "" {
					table = c.tableCovered["R9f:Gather.axis:out"] // that tensor being the output is G3's clause
				}
			}
		case o.Key == "R7:delegates:Transpose":
			table = c.tableCovered["table:transpose"]
		case o.Key == "R7:delegates:Expand":
			table = c.tableCovered["table:expand"]
		case o.Key == "R7:delegates:Concat":
			table = c.tableCovered["table:concat"]
		case strings.HasPrefix(o.Key, "R11:K1:"), strings.HasPrefix(o.Key, "R11:K2:"), strings.HasPrefix(o.Key, "R11:K3:"), strings.HasPrefix(o.Key, "R11:K6:"),
			strings.HasPrefix(o.Key, "R11:K7:"), strings.HasPrefix(o.Key, "R11:K8:"), strings.HasPrefix(o.Key, "R11:K9:"), strings.HasPrefix(o.Key, "R11:K10:"):
			// index kinds, loop/coordinate pairing, window slicers, kernel-shape order, pad signs, extent formulas and
			// pad order, and how window and kernel slice are paired (K10: kernels with unit extents and several channels
			// are among the cells): all visible in the elements of the provenance table (unequal extents, strides, pads
			// and dilations per axis, batch, channels and kernels all different). K4 (auto_pad modes, VALID is not in
			// the table) stays with the structural rule.
			table = c.tableCovered["table:conv"]
		case strings.HasPrefix(o.Key, "R6:T6:"), strings.HasPrefix(o.Key, "R6:T7:"):
			table = c.tableCovered["table:gate"]
		case o.Key == "R6:T5:Gemm":
			// the Gemm table has cells without C for every transpose combination
			table = c.tableCovered["table:gemm"]
		case o.Key == "R6:T5:RNN" || o.Key == "R6:T5:GRU" || o.Key == "R6:T5:LSTM":
			// the recurrent table walks Apply with every optional input absent in some cell: a method call on the
			// nil value would end that walk
			table = c.tableCovered["table:recurrent:"+strings.TrimPrefix(o.Key, "R6:T5:")]
		}
		if table == "" {
			continue
		}
		o.Status = StNote
		o.Why = "structural pattern not recognised (" + o.Why + "); the clause is decided by the finite table " + table + ", which walked this code for every cell and found it right"
	}
}

// paramOnlyToDriver: parameter k of the helper is used for nothing but the reduction argument of ops.ReduceAxes
// (directly or through one more such helper).
func (c *Ctx) paramOnlyToDriver(h *ssa.Function, k int, driver *ssa.Function, depth int) bool {
	if k >= len(h.Params) || depth > 2 || len(h.Blocks) == 0 {
		return false
	}
	p := h.Params[k]
	n := 0
	for _, r := range *p.Referrers() {
		switch x := r.(type) {
		case *ssa.DebugRef:
		case *ssa.Call:
			callee := x.Common().StaticCallee()
			switch {
			case callee == driver && len(x.Common().Args) == 3 && x.Common().Args[2] == ssa.Value(p) && x.Common().Args[0] != ssa.Value(p) && x.Common().Args[1] != ssa.Value(p):
				n++
			case callee != nil && isLibFn(callee) && inlineableHelper(callee):
				ok := false
				for j, a := range x.Common().Args {
					if a == ssa.Value(p) {
						if !c.paramOnlyToDriver(callee, j, driver, depth+1) {
							return false
						}
						ok = true
					}
				}
				if !ok {
					return false
				}
				n++
			default:
				return false
			}
		default:
			return false
		}
	}
	return n > 0
}

// reductionForwarder: an unexported func(t *tensor.Dense, axes ...int) (*tensor.Dense, error) whose body is the one
// gorgonia reduction of t along axes, returned as it is.
func reductionForwarder(f *ssa.Function) bool {
	if f.Parent() != nil && len(f.FreeVars) > 0 {
		return false
	}
	if f.Object() != nil && f.Object().Exported() {
		return false
	}
	if len(f.Blocks) != 1 || len(f.Params) != 2 || f.Signature.Recv() != nil {
		return false
	}
	var call *ssa.Call
	for _, in := range f.Blocks[0].Instrs {
		switch x := in.(type) {
		case *ssa.DebugRef, *ssa.Extract, *ssa.Return:
		case *ssa.Call:
			if call != nil {
				return false
			}
			call = x
		default:
			return false
		}
	}
	if call == nil {
		return false
	}
	name, recv := tensorMethod(call)
	args := call.Common().Args
	if name == "" {
		if sc := call.Common().StaticCallee(); sc != nil && fnPkgPath(sc) == pkgTensor && sc.Signature.Recv() == nil && isReductionName(sc.Name()) && len(args) == 2 {
			name, recv = sc.Name(), args[0]
		}
	}
	if !isReductionName(name) || recv != ssa.Value(f.Params[0]) || len(args) == 0 || args[len(args)-1] != ssa.Value(f.Params[1]) {
		return false
	}
	rets := returnsOf(f)
	if len(rets) != 1 || len(rets[0].Results) != 2 {
		return false
	}
	for i, r := range rets[0].Results {
		ex, ok := r.(*ssa.Extract)
		if !ok || ex.Tuple != ssa.Value(call) || ex.Index != i {
			return false
		}
	}
	return true
}
