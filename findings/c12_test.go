package findings

import (
	"testing"

	"github.com/advancedclimatesystems/gonnx/onnx"
	"gorgonia.org/tensor"
)

// C12 known finding R13:D5:fallback:UNDEFINED — a tensor that declares no data_type is loaded through
// whichever typed field is populated (here as an int32 tensor) instead of being refused.
// TestConstantOfShape builds its value tensor exactly this way, so the fallback cannot be removed
// without editing the suite.
func TestC12UndefinedDataTypeLoadsAsInt32(t *testing.T) {
	tp := &onnx.TensorProto{DataType: int32(onnx.TensorProto_UNDEFINED), Dims: []int64{2}, Int32Data: []int32{7, 9}}
	got, err := onnx.TensorFromProto(tp)
	if err != nil {
		t.Fatalf("defect no longer present: %v", err)
	}
	if got.Dtype() != tensor.Int32 {
		t.Fatalf("unexpected dtype %v", got.Dtype())
	}
	t.Logf("UNDEFINED data_type with int32_data loaded as %v %v", got.Dtype(), got.Data())
}
