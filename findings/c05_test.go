package findings

import (
	"testing"

	"github.com/advancedclimatesystems/gonnx/onnx"
	"gorgonia.org/tensor"
)

// C05 known finding R11:K4:autopad:SAME_UPPER~VALID — auto_pad=VALID (no padding) is computed with the
// SAME_UPPER padding; TestConv and TestSetPaddingWithAutoPad pin that result, so it cannot be repaired
// without editing the suite.
func TestC05AutoPadValidIsComputedAsSameUpper(t *testing.T) {
	x := tensor.New(tensor.WithShape(1, 1, 4, 4), tensor.WithBacking(tensor.Range(tensor.Float32, 0, 16)))
	w := tensor.New(tensor.WithShape(1, 1, 3, 3), tensor.WithBacking([]float32{1, 1, 1, 1, 1, 1, 1, 1, 1}))
	shapeOf := func(mode string) tensor.Shape {
		out, err, p := apply(t, "Conv", []*onnx.AttributeProto{{Name: "auto_pad", S: []byte(mode)}}, x, w)
		if err != nil || p != nil {
			t.Fatalf("%s: %v %v", mode, err, p)
		}
		return out[0].Shape()
	}
	valid, same := shapeOf("VALID"), shapeOf("SAME_UPPER")
	if len(valid) == 4 && valid[2] == 2 && valid[3] == 2 {
		t.Fatal("defect no longer present: VALID gives the unpadded 2x2 output")
	}
	t.Logf("auto_pad=VALID output shape %v (ONNX: 1x1x2x2), SAME_UPPER output shape %v", []int(valid), []int(same))
}
