package findings

import (
	"fmt"
	"testing"

	"github.com/advancedclimatesystems/gonnx/onnx"
	"gorgonia.org/tensor"
)

func fill(n int, seed int) []float32 {
	out := make([]float32, n)
	s := uint32(seed*2654435761 + 12345)
	for i := range out {
		s = s*1664525 + 1013904223
		out[i] = float32(int(s>>24)%7 - 3)
	}
	return out
}
func floats(name string, v []float32) *onnx.AttributeProto {
	return &onnx.AttributeProto{Name: name, Floats: v, Type: onnx.AttributeProto_FLOATS}
}

func TestProbeLinearRegressor(t *testing.T) {
	bad, n := 0, 0
	for _, T := range []int{1, 2, 3} {
		for _, C := range []int{1, 2, 4} {
			for _, N := range []int{0, 1, 2, 3} { // 0: rank-1 X
				for _, icpt := range []bool{true, false} {
					n++
					coef := fill(T*C, n)
					ic := fill(T, n+3)
					attrs := []*onnx.AttributeProto{floats("coefficients", coef), {Name: "targets", I: int64(T), Type: onnx.AttributeProto_INT}}
					if icpt {
						attrs = append(attrs, floats("intercepts", ic))
					}
					rows := N
					xs := []int{N, C}
					if N == 0 {
						rows = 1
						xs = []int{C}
					}
					x := fill(rows*C, n+5)
					out, err, p := apply(t, "LinearRegressor", attrs, tensor.New(tensor.WithShape(xs...), tensor.WithBacking(append([]float32{}, x...))))
					desc := fmt.Sprintf("T%d C%d X%v intercepts=%v", T, C, xs, icpt)
					if p != nil {
						bad++
						t.Errorf("PANIC %s: %v", desc, p)
						continue
					}
					if err != nil {
						bad++
						t.Errorf("ERR %s: %v", desc, err)
						continue
					}
					got := out[0].Data().([]float32)
					if len(got) != rows*T {
						bad++
						t.Errorf("SHAPE %s: %v", desc, out[0].Shape())
						continue
					}
					for r := 0; r < rows; r++ {
						for k := 0; k < T; k++ {
							var s float32
							for c := 0; c < C; c++ {
								s += x[r*C+c] * coef[k*C+c]
							}
							if icpt {
								s += ic[k]
							}
							if got[r*T+k] != s {
								bad++
								t.Errorf("VALUE %s (%d,%d): got %v want %v shape %v", desc, r, k, got[r*T+k], s, out[0].Shape())
							}
						}
					}
					if N > 0 && !(len(out[0].Shape()) == 2 && out[0].Shape()[0] == N && out[0].Shape()[1] == T) {
						bad++
						t.Errorf("SHAPE %s: %v", desc, out[0].Shape())
					}
				}
			}
		}
	}
	t.Logf("linreg %d bad %d", n, bad)
}

func TestProbeScaler(t *testing.T) {
	bad, n := 0, 0
	for _, C := range []int{1, 2, 3} {
		for _, xs := range [][]int{{C}, {1, C}, {2, C}, {3, C}} {
			for _, ol := range []int{1, C} {
				for _, sl := range []int{1, C} {
					n++
					off := fill(ol, n)
					sc := fill(sl, n+2)
					x := fill(prod(xs), n+4)
					out, err, p := apply(t, "Scaler", []*onnx.AttributeProto{floats("offset", off), floats("scale", sc)}, tensor.New(tensor.WithShape(xs...), tensor.WithBacking(append([]float32{}, x...))))
					desc := fmt.Sprintf("C%d x%v off%d scale%d", C, xs, ol, sl)
					if p != nil || err != nil {
						bad++
						t.Errorf("FAIL %s: %v %v", desc, p, err)
						continue
					}
					got := out[0].Data().([]float32)
					for i := range x {
						c := i % C
						o, s := off[0], sc[0]
						if ol > 1 {
							o = off[c]
						}
						if sl > 1 {
							s = sc[c]
						}
						if got[i] != (x[i]-o)*s {
							bad++
							t.Errorf("VALUE %s at %d: got %v want %v", desc, i, got[i], (x[i]-o)*s)
							break
						}
					}
					if !eqShape(out[0].Shape(), xs) {
						bad++
						t.Errorf("SHAPE %s: %v", desc, out[0].Shape())
					}
				}
			}
		}
	}
	t.Logf("scaler %d bad %d", n, bad)
}

func prod(s []int) int {
	p := 1
	for _, d := range s {
		p *= d
	}
	return p
}
func eqShape(a tensor.Shape, b []int) bool {
	if len(a) != len(b) {
		return false
	}
	for i := range a {
		if a[i] != b[i] {
			return false
		}
	}
	return true
}
