package findings

import (
	"testing"

	"github.com/advancedclimatesystems/gonnx/onnx"
	"gorgonia.org/tensor"
)

func TestProbeConcatAxis(t *testing.T) {
	mk := func() tensor.Tensor {
		return tensor.New(tensor.WithShape(2, 3), tensor.WithBacking(tensor.Range(tensor.Float32, 0, 6)))
	}
	for _, ax := range []int64{-4, -3, -2, -1, 0, 1, 2, 3} {
		out, err, p := apply(t, "Concat", []*onnx.AttributeProto{{Name: "axis", I: ax}}, mk(), mk())
		if p != nil {
			t.Logf("axis %d: PANIC %v", ax, p)
		} else if err != nil {
			t.Logf("axis %d: ERR %v", ax, err)
		} else {
			t.Logf("axis %d: shape %v", ax, out[0].Shape())
		}
	}
}
