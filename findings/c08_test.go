package findings

import (
	"testing"

	"github.com/advancedclimatesystems/gonnx/onnx"
	"github.com/advancedclimatesystems/gonnx/ops/opset13"
	"gorgonia.org/tensor"
)

func apply(t *testing.T, name string, attrs []*onnx.AttributeProto, in ...tensor.Tensor) (out []tensor.Tensor, err error, panicked any) {
	t.Helper()
	defer func() { panicked = recover() }()
	op, e := opset13.GetOperator(name)
	if e != nil {
		t.Fatal(e)
	}
	if e := op.Init(&onnx.NodeProto{Attribute: attrs}); e != nil {
		return nil, e, nil
	}
	in, e = op.ValidateInputs(in)
	if e != nil {
		return nil, e, nil
	}
	out, err = op.Apply(in)
	return
}

func i64(v ...int64) tensor.Tensor { return tensor.New(tensor.WithShape(len(v)), tensor.WithBacking(v)) }

// C08 known finding R19:Slice:rank-restored — gorgonia's Slice drops every sliced axis whose extent becomes 1.
func TestC08SliceDropsExtentOneAxis(t *testing.T) {
	x := tensor.New(tensor.WithShape(3, 4), tensor.WithBacking(tensor.Range(tensor.Float32, 0, 12)))
	out, err, p := apply(t, "Slice", nil, x, i64(1, 0), i64(2, 4))
	if err != nil || p != nil {
		t.Fatalf("unexpected: %v %v", err, p)
	}
	if len(out[0].Shape()) == 2 {
		t.Fatal("defect no longer present")
	}
	t.Logf("Slice [1:2,0:4] of 3x4 has shape %v, ONNX says (1,4)", out[0].Shape())
}

// C08 known finding R19:Slice:step-count — along axis 0 gorgonia rounds the number of selected elements down.
func TestC08SliceStepCountRoundedDown(t *testing.T) {
	x := tensor.New(tensor.WithShape(10), tensor.WithBacking(tensor.Range(tensor.Float32, 0, 10)))
	out, err, p := apply(t, "Slice", nil, x, i64(0), i64(10), i64(0), i64(3))
	if err != nil || p != nil {
		t.Fatalf("unexpected: %v %v", err, p)
	}
	if out[0].Shape().TotalSize() == 4 {
		t.Fatal("defect no longer present: [0:10:3] selects 4 elements")
	}
	t.Logf("Slice [0:10:3] of [0..9] = %v, ONNX says [0 3 6 9]", out[0].Data())
}

// C08 known finding R19:Slice:empty-range — an empty range yields an element.
func TestC08SliceEmptyRangeYieldsElement(t *testing.T) {
	x := tensor.New(tensor.WithShape(10), tensor.WithBacking(tensor.Range(tensor.Float32, 0, 10)))
	out, err, p := apply(t, "Slice", nil, x, i64(2), i64(2))
	if err != nil || p != nil {
		t.Logf("now refused: %v %v", err, p)
		t.Fatal("defect no longer present: the empty range is refused")
	}
	if out[0].Shape().TotalSize() == 0 {
		t.Fatal("defect no longer present: the empty range yields an empty tensor")
	}
	t.Logf("Slice [2:2] of [0..9] = %v (shape %v), ONNX says an empty tensor", out[0].Data(), out[0].Shape())
}
